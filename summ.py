#!/usr/bin/env python3
import json,sys
for line in sys.stdin:
    if not line.startswith("RESULT "): 
        print(line.rstrip()[:300]); continue
    r=json.loads(line[7:])
    print('scenarios',r['scenarios'],'wall_ms',r['wall_ms'],'stuck',json.dumps(r['stuck'])[:1500])
    for p,a in r['props'].items():
        print(p,'evals',a['evals'],'nontrivial',a['nontrivial'],'inconcl',a['inconclusive'],'viol',len(a['violations']))
        seen=set()
        for v in a['violations']:
            k=v['msg'][:60]
            if k in seen: continue
            seen.add(k)
            if len(seen)>6: break
            print('   ',v['known'],v['msg'][:400], v['witness'])
    if '-c' in sys.argv: print(json.dumps(r['counters'],indent=1))
