#!/bin/bash
# usage: ./run_all.sh [quick|thorough] [props...]  -- runs the checks one after another
tier=${1:-quick}; shift
props=${@:-C01 C02 C03 C04 C05 C06 C07 C08 C09 C10 C11 C12 C13 C14 C15 C16 C17 C18 C19}
for p in $props; do
  s=$(date +%s)
  out=$(./check $p --tier $tier 2>&1); rc=$?
  e=$(date +%s)
  echo "== $p rc=$rc $((e-s))s"
  echo "$out" | grep -E "^\[C|VIOLATION|KNOWN-FINDING|violation:|nothing non-trivial|failed" | cut -c1-400
done
