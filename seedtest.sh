#!/bin/bash
# usage: seedtest.sh <patch.diff> <PROP> [PROP...]   (env TIER=quick|thorough, VERIF_SEED)
# Applies a seeded change to /repo, runs the given checks, undoes the change. Evidence files are
# restored afterwards (they must describe the unchanged tree).
patch=$1; shift
cd /repo || exit 2
if [ -n "$(git status --porcelain)" ]; then echo "/repo is not clean"; exit 2; fi
git apply "$patch" || { echo "patch does not apply"; exit 2; }
trap 'git -C /repo checkout -- . ; git -C /verif checkout -- evidence 2>/dev/null' EXIT
cd /verif
for p in "$@"; do
  s=$(date +%s)
  out=$(./check $p --tier ${TIER:-quick} 2>&1); rc=$?
  e=$(date +%s)
  echo "== $p rc=$rc $((e-s))s $(echo "$out" | grep -c '^VIOLATION') VIOLATION lines"
  echo "$out" | grep -E "violation:" | head -${NV:-3} | cut -c1-330
  echo "$out" | grep -E "^\[C|nothing non-trivial|build failed" | cut -c1-250
done
