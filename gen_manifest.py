#!/usr/bin/env python3
"""Regenerates MANIFEST.json from plan.py (run after editing plan.py)."""
import json, os, sys
sys.path.insert(0, os.path.dirname(os.path.abspath(__file__)))
from plan import PLAN, RULES, LEVEL_TEXT, NOT_APPLICABLE, TECHNIQUE

checks = []
for pid in sorted(PLAN):
    engines = sorted(set(e["engine"] for t in PLAN[pid].values() for e in t))
    checks.append({
        "property_id": pid,
        "quick_cmd": f"./check {pid} --tier quick",
        "thorough_cmd": f"./check {pid} --tier thorough",
        "evidence_file": f"/verif/evidence/{pid}.json",
        "replay_cmd_template": f"./check {pid} --replay {{path}}",
        "engine": "+".join(engines),
        "level_claimed": {
            "category": "exploration",
            "text": LEVEL_TEXT.get(pid, LEVEL_TEXT["*"]),
            "design_ref": f"DESIGN.md section 6 ({pid})",
        },
        "level_note": "Trusted base: the harness (event log with a Relaxed logical clock, scripted deterministic callbacks, offline oracles), rustc/Miri/TSan. Holds only on the executions produced; stop() >= 2.5 s and watchdog caps are inconclusive.",
        "technique": TECHNIQUE.get(pid, TECHNIQUE["*"]),
    })
m = {
    "version": 1,
    "setup_cmd": "./check --setup",
    "hooks": {
        "guard": "cfg(rs_store_verif)",
        "enable": "not needed: no hook sites; all observation is through the public API (scripted reducers, middlewares, subscribers, effects and client-side inv/ret records)",
        "baseline_off_cmd": "cd /repo && cargo test --workspace --no-fail-fast --offline",
        "source_commits": [],
        "add_only": True,
    },
    "engines": [
        {"name": "native", "path": "/verif/harness", "serves_properties": sorted(PLAN), "kind_free_text": "release build of the harness crate `rsv` against /repo's working tree; sharded stress/gated/enumeration workloads under taskset CPU masks; offline oracles over merged event logs; logical-criterion watchdog with gdb call sites"},
        {"name": "miri", "path": "/verif/harness", "serves_properties": sorted(p for p in PLAN if any(e["engine"] == "miri" for t in PLAN[p].values() for e in t)), "kind_free_text": "same harness in tiny size under `cargo +nightly miri run`, one process per -Zmiri-seed at several preemption rates: UB/data-race detector + fine-grained seeded schedules"},
        {"name": "tsan", "path": "/verif/harness", "serves_properties": sorted(p for p in PLAN if any(e["engine"] == "tsan" for t in PLAN[p].values() for e in t)), "kind_free_text": "ThreadSanitizer build (-Zbuild-std) of the same harness, thorough tier only"},
    ],
    "checks": checks,
    "not_applicable": NOT_APPLICABLE,
    "notes": "All checks: `./check <ID> --tier quick|thorough`; VERIF_SEED selects scenario and Miri seeds. Known findings are listed in KNOWN_FINDINGS.txt and classified by oracle signature.",
}
json.dump(m, open(os.path.join(os.path.dirname(os.path.abspath(__file__)), "MANIFEST.json"), "w"), indent=1)
print("MANIFEST.json:", len(checks), "checks,", len(NOT_APPLICABLE), "not applicable")
