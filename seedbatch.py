#!/usr/bin/env python3
"""Runs checks against seeded changes in an isolated copy (/tmp/seedrun) so that /repo and /verif stay
untouched while the batch runs. usage: seedbatch.py <jobs.json> ; jobs = [[name, patch, [props...]], ...]
Results: /tmp/seedrun/results.jsonl"""
import json, os, subprocess, sys, time, re

ROOT = os.environ.get("SEEDROOT", "/tmp/seedrun")
RESULTS = os.environ.get("RESULTS", ROOT + "/results.jsonl")
R = lambda *a, **k: subprocess.run(*a, shell=True, text=True, stdout=subprocess.PIPE, stderr=subprocess.STDOUT, **k)


def setup():
    os.makedirs(ROOT, exist_ok=True)
    if not os.path.exists(ROOT + "/repo"):
        print(R(f"git -C /repo worktree add --detach {ROOT}/repo HEAD").stdout)
    else:
        R(f"git -C {ROOT}/repo checkout -q --detach $(git -C /repo rev-parse HEAD); git -C {ROOT}/repo checkout -- .")
    R(f"rsync -a --delete --exclude harness/target --exclude evidence --exclude .git /verif/ {ROOT}/verif/")
    R(f"sed -i 's#path = \"/repo\"#path = \"{ROOT}/repo\"#' {ROOT}/verif/harness/Cargo.toml")
    os.makedirs(ROOT + "/verif/evidence", exist_ok=True)


def main():
    jobs = json.load(open(sys.argv[1]))
    setup()
    tier = os.environ.get("TIER", "quick")
    for name, patch, props in jobs:
        R(f"git -C {ROOT}/repo checkout -- . && git -C {ROOT}/repo clean -fdq")
        a = R(f"git -C {ROOT}/repo apply {patch}")
        if a.returncode != 0:
            rec = {"name": name, "error": "patch does not apply: " + a.stdout[-300:]}
            open(RESULTS, "a").write(json.dumps(rec) + "\n")
            continue
        for p in props:
            t0 = time.time()
            r = R(f"./check {p} --tier {tier}", cwd=ROOT + "/verif")
            out = r.stdout
            rec = {
                "name": name, "prop": p, "tier": tier, "rc": r.returncode, "wall": round(time.time() - t0),
                "violation_lines": len(re.findall(r"^VIOLATION", out, re.M)),
                "messages": [l.strip()[:400] for l in out.splitlines() if l.strip().startswith("violation:")][:4],
                "summary": [l for l in out.splitlines() if l.startswith("[C")][-1:],
                "tail": out[-400:] if r.returncode not in (0, 1) else "",
            }
            open(RESULTS, "a").write(json.dumps(rec) + "\n")
            print(name, p, "rc", r.returncode, rec["wall"], "s", rec["messages"][:1], flush=True)
    R(f"git -C {ROOT}/repo checkout -- .")


main()
