#!/usr/bin/env python3
"""Confirms seeded changes in a scratch worktree: (1) demo passes on the unmodified tree, (2) with the
patch the crate compiles and its 46 unit tests pass, (3) with the patch the demo fails.
usage: confirm_seeds.py ID-n [ID-n ...]; results -> /tmp/seedstage/confirm.jsonl"""
import json, os, subprocess, sys, shutil, re

WT = "/tmp/confirm_wt"
WTROOT = os.environ.get("WTROOT", "/tmp/wt")
STAGE = os.environ.get("STAGE", "/tmp/seedstage")
def R(cmd, cwd=None, timeout=900):
    try:
        r = subprocess.run(cmd, shell=True, cwd=cwd, text=True, stdout=subprocess.PIPE, stderr=subprocess.STDOUT, timeout=timeout)
        return r.returncode, r.stdout
    except subprocess.TimeoutExpired as e:
        return 124, (e.stdout or "") + "\n[timeout]"

if not os.path.exists(WT):
    print(R(f"git -C /repo worktree add --detach {WT} HEAD")[1])
else:
    R(f"git -C {WT} checkout -q --detach $(git -C /repo rev-parse HEAD) && git -C {WT} reset -q --hard && git -C {WT} clean -fdq -e target")

for name in sys.argv[1:]:
    pid, n = name.split("-")
    patch = f"{STAGE}/{name}.diff"
    demo_src = f"{WTROOT}/{pid.rstrip('rs') if pid[0]=='C' else pid}/tests/demo{n}.rs"
    R(f"git -C {WT} reset -q --hard && git -C {WT} clean -fdq -e target")
    os.makedirs(WT + "/tests", exist_ok=True)
    shutil.copy(demo_src, WT + f"/tests/demo{n}.rs")
    rec = {"name": name}
    rc, out = R(f"cargo test --offline --test demo{n} 2>&1 | tail -15", cwd=WT)
    rec["demo_clean_pass"] = "test result: ok" in out and "FAILED" not in out
    rc, out = R(f"git apply {patch}", cwd=WT)
    rec["applies"] = rc == 0
    passes = []
    for _ in range(3):
        rc, out = R("cargo test --offline --lib 2>&1 | grep -E '^test result|^error|FAILED|failed' | head -8", cwd=WT)
        m = re.search(r"(\d+) passed; (\d+) failed", out)
        passes.append((int(m.group(1)), int(m.group(2))) if m else (0, -1))
        rec.setdefault("suite_failed_tests", [])
        rec["suite_failed_tests"] += re.findall(r"test (\S+) \.\.\. FAILED", out)
        if passes[-1] == (46, 0):
            break
    rec["suite_runs"] = passes
    rec["suite_pass"] = (46, 0) in passes
    rc, out = R(f"timeout 600 cargo test --offline --test demo{n} 2>&1 | tail -25", cwd=WT, timeout=700)
    rec["demo_patched_fails"] = ("FAILED" in out or "failed" in out or rc == 124 or "timeout" in out) and "test result: ok" not in out.split("running")[-1]
    rec["demo_patched_tail"] = out[-500:]
    open(f"{STAGE}/confirm.jsonl", "a").write(json.dumps(rec) + "\n")
    print(name, {k: v for k, v in rec.items() if k not in ("demo_patched_tail",)}, flush=True)
R(f"git -C {WT} reset -q --hard && git -C {WT} clean -fdq -e target")
