"""Per-property job plans, non-triviality rules and assumptions for ./check."""


def native(family, shards, budget_s, **kw):
    return dict(engine="native", family=family, shards=shards, budget_ms=int(budget_s * 1000), **kw)


def miri(family, seeds, count=2, rates=(0.002, 0.01, 0.05)):
    return dict(engine="miri", family=family, shards=seeds, count=count, rates=list(rates))


def tsan(family, shards, budget_s):
    return dict(engine="tsan", family=family, shards=shards, budget_ms=int(budget_s * 1000))


PLAN = {
    "C01": {"quick": [native("A", 16, 8), miri("A", 32)], "thorough": [native("A", 32, 40), miri("A", 256, count=3)]},
    "C02": {"quick": [native("A", 16, 8), miri("A", 32)], "thorough": [native("A", 32, 40), miri("A", 256, count=3)]},
    "C03": {"quick": [native("A", 16, 8), miri("A", 32)], "thorough": [native("A", 32, 40), miri("A", 256, count=3)]},
    "C07": {"quick": [native("A", 16, 8), miri("A", 32)], "thorough": [native("A", 32, 40), miri("A", 256, count=3)]},
    "C08": {"quick": [native("A", 16, 8), miri("A", 32)], "thorough": [native("A", 32, 40), miri("A", 256, count=3), tsan("A", 8, 20)]},
}

RULES = {
    "stuck_prop": "C13",
    # properties whose check reports a stuck scenario as a violation (others count it inconclusive)
    "stuck_reported_by": ["C13", "C14"],
    "miri_report_props": {},
    "nontrivial": {
        "C01": "scenario = seeded family-A pipeline stress (policy, capacity, 1-6 producers x 1-40 actions, 1-4 reducers with Dispatch/Keep table, middlewares, subscribers, readers, run-time registration); non-trivial iff >=2 producer threads interleaved, >=1 Keep answer and a chain of >=2 reducers; distinct = distinct schedule fingerprint (hash of the merged (kind, action, component) event sequence)",
        "C02": "family-A scenario under any policy; non-trivial iff >=1 cross-thread pair with ret(a)<inv(b) was compared, >=2 entry points and >=2 dispatching threads; distinct by schedule fingerprint",
        "C03": "family-A scenario; non-trivial iff >=2 producers, >=2 whole-run subscribers and a Keep action between two notifying actions; distinct by schedule fingerprint",
        "C07": "family-A scenario; non-trivial iff >=2 producers, >=2 pipeline phases populated and >=1 run-time registration followed by a dispatch of the registering thread; distinct by schedule fingerprint",
        "C08": "family-A scenario with reader threads and reads inside callbacks; non-trivial iff >=20 reads matched, one reader saw >=3 distinct positions and >=1 read was made inside a subscriber callback; distinct by schedule fingerprint",
    },
    "exhaustive": {},
    "assumptions": {
        "*": [
            "verdict covers only the executions produced by this run (generated scenarios x OS/Miri schedules); nothing is proved",
            "the harness' Relaxed logical clock orders events consistently with happens-before; scripted callbacks are deterministic functions of (action, script table)",
            "stop() calls that took >= 2.5 s are counted inconclusive, never violations",
        ],
    },
}

LEVEL_TEXT = {}

LEVEL_TEXT.update({
    "*": "Runtime monitoring: the real store is executed under generated hostile workloads (native shards under CPU masks, Miri seeded schedules); an offline oracle decides the property over every recorded history. Held on the executions observed, nothing more.",
})

TECHNIQUE = {
    "*": "runtime monitoring: offline oracle over recorded event histories of the real code (native stress + Miri seeded schedules)",
}

# properties not claimed yet (kept current while the framework is being built)
NOT_APPLICABLE = [
    {"property_id": p, "reason": "check under construction in this session; not claimed until its monitor exists"}
    for p in ["C04", "C05", "C06", "C09", "C10", "C11", "C12", "C13", "C14", "C15", "C16", "C17", "C18", "C19"]
    if p not in PLAN
]
