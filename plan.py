"""Per-property job plans, non-triviality rules and assumptions for ./check."""


def native(family, shards, budget_s, **kw):
    """budget_s == Q: quick shard, bounded by scenario count (reproducible amount of work on any
    machine, Q is only a cap); otherwise time-bounded"""
    d = dict(engine="native", family=family, shards=shards, budget_ms=int(budget_s * 1000), **kw)
    if budget_s == Q and "count" not in kw:
        d["count"] = QN[family]
    return d


def enum(family, indexes, shards=16, size="normal"):
    """finite enumeration: indexes [0, indexes) split over shards"""
    return dict(engine="native", family=family, shards=shards, budget_ms=10**9, index_space=indexes, size=size)


def witness(index):
    return dict(engine="native", family="W", shards=1, budget_ms=60000, start_list=[index], count=1, no_restart=True)


def miri(family, seeds, count=2, rates=(0.002, 0.01, 0.05)):
    return dict(engine="miri", family=family, shards=seeds, count=count, rates=list(rates))


def tsan(family, shards, budget_s):
    return dict(engine="tsan", family=family, shards=shards, budget_ms=int(budget_s * 1000))


Q = 180    # quick: cap in seconds per native shard (the shard stops after QN[family] scenarios)
QN = {"A": 600, "B": 1200, "C": 400, "D": 1000, "E": 700, "G": 2000, "K": 70, "T": 500}   # scenarios per quick shard
T = 45     # seconds per native shard, thorough
MQ = 16    # miri seeds, quick
MT = 192   # miri seeds, thorough

F_BATCHES = 4 + 4 + 256     # family F: exhaustive verdict assignments for 1..3 middlewares (x2 answers)
H_QUICK = 193               # family H: 12 350 builder sequences (length <= 3) in chunks of 64
H_THOROUGH = 3474           # 222 302 builder sequences (length <= 4)

PLAN = {
    "C01": {"quick": [native("A", 12, Q), native("B", 4, Q), miri("A", MQ // 2), miri("B", MQ // 2, count=3)], "thorough": [native("A", 24, T), native("B", 8, T), native("E", 8, T / 2), miri("A", MT), miri("B", MT // 4)]},
    "C02": {"quick": [native("A", 12, Q), native("C", 4, Q), miri("A", MQ // 2), miri("C", MQ // 2, count=3)], "thorough": [native("A", 24, T), native("C", 8, T), native("B", 8, T / 2), miri("A", MT), miri("C", MT // 4)]},
    "C03": {"quick": [native("A", 12, Q), native("D", 4, Q), miri("A", MQ)], "thorough": [native("A", 24, T), native("D", 8, T), miri("A", MT), miri("D", MT // 4)]},
    "C04": {"quick": [native("B", 10, Q), native("D", 4, Q), native("K", 2, Q), miri("B", MQ, count=3)], "thorough": [native("B", 24, T), native("D", 8, T), miri("B", MT, count=3), miri("D", MT // 4)]},
    "C05": {"quick": [native("C", 12, Q), native("B", 4, Q), miri("C", MQ, count=3)], "thorough": [native("C", 24, T), native("B", 8, T), miri("C", MT, count=3), miri("B", MT // 4)]},
    "C06": {"quick": [native("C", 16, Q), miri("C", MQ, count=3)], "thorough": [native("C", 32, T), miri("C", MT, count=3)]},
    "C07": {"quick": [native("A", 12, Q), native("D", 4, Q), miri("A", MQ)], "thorough": [native("A", 24, T), native("D", 8, T), miri("A", MT), miri("D", MT // 4)]},
    "C08": {"quick": [native("A", 14, Q), native("G", 2, Q), miri("A", MQ)], "thorough": [native("A", 24, T), native("G", 8, T), miri("A", MT), tsan("A", 8, 20)]},
    "C09": {"quick": [witness(0), native("D", 14, Q), native("G", 2, Q), miri("D", MQ)], "thorough": [witness(0), native("D", 24, T), native("G", 8, T), miri("D", MT)]},
    "C10": {"quick": [native("D", 16, Q), miri("D", MQ)], "thorough": [native("D", 32, T), miri("D", MT)]},
    "C11": {"quick": [witness(1), native("E", 16, Q), native("T", 8, Q), miri("E", MQ)], "thorough": [witness(1), native("E", 32, T), native("T", 16, T), miri("E", MT)]},
    "C12": {"quick": [enum("F", F_BATCHES), miri("F", MQ, count=2)], "thorough": [enum("F", F_BATCHES), native("A", 8, T / 2), miri("F", MT // 2, count=2)]},
    "C13": {"quick": [witness(2), witness(3), native("G", 14, Q), native("B", 2, Q), miri("G", MQ, count=3)], "thorough": [witness(2), witness(3), native("G", 32, T, size="thorough"), miri("G", MT, count=3), tsan("G", 8, 20)]},
    "C14": {"quick": [witness(2), native("D", 12, Q), native("B", 4, Q), miri("D", MQ)], "thorough": [witness(2), native("D", 24, T), native("B", 8, T), miri("D", MT), miri("B", MT // 4)]},
    "C15": {"quick": [native("B", 16, Q), miri("B", MQ, count=3)], "thorough": [native("B", 32, T), miri("B", MT, count=3)]},
    "C16": {"quick": [enum("I", 9, shards=3), native("D", 10, Q), native("K", 4, Q), miri("D", MQ)], "thorough": [enum("I", 9, shards=3), native("D", 24, T), native("K", 8, T), miri("D", MT), miri("I", 3, count=3), miri("K", MT // 4)]},
    "C17": {"quick": [enum("H", H_QUICK), miri("H", 8, count=2)], "thorough": [enum("H", H_THOROUGH + 600, size="thorough"), miri("H", 32, count=2)]},
    "C18": {"quick": [native("A", 6, Q), native("B", 4, Q), native("C", 4, Q), native("E", 2, Q), miri("A", MQ // 2), miri("C", MQ // 2)], "thorough": [native("A", 12, T), native("B", 8, T), native("C", 8, T), native("E", 4, T), miri("A", MT // 2), miri("C", MT // 2), tsan("A", 8, 20)]},
    "C19": {"quick": [native("K", 16, Q), miri("K", MQ)], "thorough": [native("K", 32, T), miri("K", MT)]},
}

SCHED = "distinct = distinct schedule fingerprint (hash of the merged (event kind, action, component, result) sequence of the execution)"

RULES = {
    "stuck_prop": "C13",
    # a scenario that is stuck by the logical criterion is a violation of these properties when it
    # happens in their own workloads (blocking is part of what they state); other checks count it
    # as inconclusive and leave it to C13
    "stuck_reported_by": ["C04", "C05", "C06", "C10", "C11", "C13", "C14", "C15", "C17", "C19"],
    "miri_report_props": {},
    "nontrivial": {
        "C01": "seeded pipeline stress (families A, B, E; family A includes stop() running into its timeout with a parked reducer and a backlog, judged after the reducer loop has ended on its own, and the only handle dropped without stop() while the reducer is parked with a backlog): policy, capacity 1-16, 1-6 producers x 1-40 actions, 1-4 reducers with a Dispatch/Keep table, middlewares, subscribers, readers, run-time registration, stop racing or after join; non-trivial iff >=2 producer threads interleaved, >=1 Keep answer and a chain of >=2 reducers; " + SCHED,
        "C02": "families A, C, B under all three policies and five entry points; non-trivial iff >=1 cross-thread pair with ret(a)<inv(b) was compared, >=2 entry points and >=2 dispatching threads; " + SCHED,
        "C03": "families A and D (A: also stop() left to its timeout with a backlog, judged once the loop has released its subscribers; D: k threads released together unsubscribing k different subscribers with another one registered behind them); non-trivial iff >=2 producers, >=2 whole-run subscribers and a Keep action between two notifying actions; " + SCHED,
        "C04": "families B, D and K (D: late unsubscribes racing stop(), a stalled drop-policy channeled subscriber released 0.7-1.4 s after stop() was invoked, a subscriber list poisoned by a panicking on_unsubscribe; K: stop() called from a task on another store's pool); family B: 1-6 producers dispatch until Err while one thread calls stop()/close();stop()/Store::stop() with a backlog built by a gated or slow reducer, then probes every entry point; non-trivial iff >=1 dispatch overlapped the shutdown, backlog >=1 at stop.inv, and both Ok and Err results occurred; " + SCHED,
        "C05": "family C: gated stepper reducer (exact dispatch/step programs, capacities 1-16, 1-4 producers) and ungated stalls (in half of them two of three actions return an Effect::Action, i.e. the store dispatches to itself from its pool while callers are blocked on the full queue); natively the stepper also times how soon callers that sat out a 1.1 s stall resume once room was made (two or more resumptions >= 100 ms in one scenario are a violation); non-trivial iff a dispatch was open at a gated quiescent point with a full queue and later returned (or, ungated, the queue was observed full); " + SCHED,
        "C06": "family C: burst n>capacity while the reducer is parked in a plug action, 1-4 producers, both drop policies, plus reducer-running variant (in half of the drained ones two of three actions return an Effect::Action and conservation counts the self-dispatched follow-ups after an exact quiescence wait), plus close() and a further dispatch while the reducer is still parked on the full queue; non-trivial iff >=1 discard was observed (gated: with the queue full at the quiescent point); " + SCHED,
        "C07": "families A and D (incl. the stop()-timeout and concurrent-unsubscribe scenarios of C03); non-trivial iff >=2 producers, >=2 pipeline phases populated and (>=1 run-time registration followed by a dispatch of the registering thread, or an unsubscribe() during the stream); " + SCHED,
        "C08": "families A and G with reader threads and reads inside subscriber/middleware callbacks; 1/25 of family A scenarios have a subscriber panicking inside on_notify of the k-th action (only C08 is judged there); non-trivial iff >=20 reads matched, one reader saw >=3 distinct positions and >=1 read was made inside a subscriber callback; " + SCHED,
        "C09": "families D, G (+ deterministic witness W0): direct/channeled/selector subscribers and iterators added and removed while 1-4 producers run; barrier-released concurrent unsubscribes, a panicking on_unsubscribe followed by stop(), stale handles used again after a replacement was registered; non-trivial iff an unsubscribe() interval overlapped a notification of another subscriber; " + SCHED,
        "C10": "family D: subscribed()/subscribed_with() capacity 1-4 x 3 policies and capacity 0 (rendezvous) under the blocking policy, direct twin registered right after, stalled (gated) drop-policy subscriber (released before stop() or 0.7-1.4 s after stop() was invoked), unsubscribe/stop at random points, poisoned subscriber list; non-trivial iff the subscriber's channel was full at least once (discard, delivery lagging by >= capacity, or progress while stalled); " + SCHED,
        "C11": "family E (+ witness W1): reducers return 0-4 effects per chain of all four kinds, thunks dispatching follow-ups, panicking and gated effects, middleware removing effects, client dispatch_task/thunk, stop with and without backlog (natively a stop() that gives up after its timeout although every gate was open, with work going on after it returned, is a violation); non-trivial iff >=2 effect kinds ran, >=1 follow-up was reduced and >=1 action issued >=2 effects; family T (native): 8-32 threads hammer dispatch_task/dispatch_thunk on an idle store while one thread calls stop() (or close(); stop()) in the middle and for a while after it - no task twice, every task handed over before stop() was invoked has run when it returns, no task begins after stop() returned; non-trivial iff submitting calls fell before, across and after the stop() (distinct = thread count/kind and how many calls fell before / across stop() and ran); " + SCHED,
        "C12": "family F: exhaustive enumeration of the verdict assignments {Continue,Done,Break,Err}^(3M) for M=1..3 middlewares x {Dispatch,Keep} (64+4096+262144 assignments x 2), one action per pair on a live store in seed-shuffled order with effect/removal variants; in every fifth batch with M>=2 the last middleware is registered with add_middleware() from another thread while middleware 0 is parked inside before_reduce of a first action; non-trivial = every batch (all pairs are checked against the reference model); distinct = distinct enumeration batch of 2048 pairs (conservative: see assignment_answer_pairs_executed for the pair count)",
        "C13": "family B (stop-race programs: a stop() left to its timeout with the loop still running is reported, natively also one that returns before the loop has ended although nothing was parked or slow, or although the reducer - parked with a full queue until 3.4 s after the call - had been released and the join had not used up its time) and family G: 2-4 client threads running random programs over the whole public API, each ending with stop(), in a third of the blocking-policy scenarios preceded by a phase in which every thread hammers a capacity-1/2 queue and thread 0 calls iter() in the middle of it ; natively a stop() of >= 2.5 s that returns before the loop's last act is reported (+ witnesses W2, W3 of the known iterator findings); non-trivial iff >=3 client threads and >=4 operation kinds; " + SCHED,
        "C14": "families D and B (+ witness W2): iterator consumer on its own thread racing 1-4 producers and stop(), iterator created at a random point before stop(); an unread empty iterator dropped (in half of the cases by a panic unwinding its owner) while another unsubscribe() is parked inside on_unsubscribe, then actions for a second, live iterator; non-trivial iff >=1 item was consumed while producers were still dispatching and end-of-stream was reached; " + SCHED,
        "C15": "family B with drop(DroppableStore) as the stop operation and outstanding clones used by 1-6 threads; natively a drop that returns through its timeout with the loop still running although nothing was parked is a violation, as is one that returns with the backlog unprocessed right after a late release of the parked reducer; 1/25: subscriber list poisoned by a panicking on_unsubscribe before the drop; non-trivial as C04 plus >=1 clone used after the drop; " + SCHED,
        "C16": "family K (one SelectorSubscriber instance registered on two stores); family I: exhaustive enumeration of all sequences over {0,1,2} up to length 9 fed to a real SelectorSubscriber, once with u8 equality and once with a tolerance (non-transitive) equality, plus family D (subscribe_with_selector on a live store; one SelectorSubscriber notified by 2-4 threads in lock step, 120 rounds, then by free-running threads, then with its callback parked while another thread presents the next value); non-trivial iff the sequence/stream contains both a repeat and a change; distinct = enumeration length class or schedule fingerprint",
        "C17": "family H: both constructors x every sequence over 18 builder calls up to length 3 (quick, 12 350 builds) / 4 (thorough, 222 302) plus random length 5-8, each compared with the last-setting model and every Ok result probed (thread name, chain order, middleware order, queue bound, drop behaviour); distinct = enumeration chunk of 64 builds (see builds for the count)",
        "C18": "families A, B, C, E with a sampler thread; non-trivial iff >=2 dispatching threads and at least two of {drops, vetoes, effects, rejected dispatches} occurred; " + SCHED,
        "C19": "family K: two stores (equal or different configuration, possibly same name, shared subscriber object), interleaved clients, one stopped or dropped while the other is busy; natively 1/6: the idle store is stopped while the other store's stop() waits for its own parked effect; 1/40: pool probe - two fresh child processes differing only in the store created first must run the same number of parked effects at once; non-trivial iff the survivor had reducer-context events or a backlog while the other was stopping; " + SCHED,
    },
    "exhaustive": {"C12": {"quick": True, "thorough": True}, "C17": {"quick": True, "thorough": True}, "C16": {"quick": True, "thorough": True}},
    "assumptions": {
        "*": [
            "verdict covers only the executions produced by this run (generated scenarios x OS/Miri schedules); nothing is proved",
            "the harness' Relaxed logical clock orders events consistently with happens-before; scripted callbacks are deterministic functions of (action, script table)",
            "stop() calls that took >= 2.5 s and watchdog/controller caps are counted inconclusive, never violations - except (natively only) in families B and E, where nothing is parked or slow once the stop is invoked: there a stop that returns through its timeout while the reducer loop is still running is reported",
            "the resume-latency rule of C05 is the only wall-clock verdict: it needs two delays of >= 100 ms in one scenario where the unmodified tree shows microseconds",
            "a subscriber whose callback panics is itself outside the properties (callbacks are assumed to return); what the panic does to the state, to other subscribers and to shutdown is judged",
        ],
        "C12": ["exhaustive only over the stated finite space (1..3 middlewares, one action per assignment)"],
        "C16": ["exhaustive only over value sequences up to length 9 over a 3-value alphabet"],
        "C17": ["exhaustive only over call sequences up to the stated length over the 18-call alphabet; sequences where without_reducer() is followed by with_reducer(s) leaving the list empty are left open"],
    },
}

LEVEL_TEXT = {
    "*": "Runtime monitoring: the real store is executed under generated hostile workloads (native shards under CPU masks, Miri seeded schedules); an offline oracle decides the property over every recorded history. Held on the executions observed, nothing more.",
    "C12": "Runtime monitoring by exhaustive enumeration of a finite input space on the real code: every verdict assignment for 1..3 middlewares is executed on a live store and compared with an executable reference model. Exhaustive over that space only.",
    "C16": "Runtime monitoring: exhaustive enumeration of selected-value sequences (length <= 9) on the real SelectorSubscriber plus live-store streams under concurrency.",
    "C17": "Runtime monitoring by exhaustive enumeration of builder call sequences up to a length bound on the real StoreBuilder, with behavioural probes of every built store.",
}

TECHNIQUE = {
    "*": "runtime monitoring: offline oracle over recorded event histories of the real code (native stress + Miri seeded schedules)",
    "C05": "runtime monitoring: gated stepper reducer makes queue occupancy exact; offline oracle over event log (native + Miri)",
    "C06": "runtime monitoring: gated bursts on the real queue; survivor-set/metric oracle over event log (native + Miri)",
    "C12": "runtime monitoring: exhaustive input enumeration executed on the real store vs executable reference model",
    "C13": "runtime monitoring: random API programs under a logical-criterion watchdog (no runnable thread) with gdb call sites; Miri deadlock detector",
    "C16": "runtime monitoring: exhaustive sequence enumeration on the real SelectorSubscriber + live-store oracle",
    "C17": "runtime monitoring: exhaustive builder-sequence enumeration with behavioural probes vs last-setting model",
}

NOT_APPLICABLE = []
