//! Family G: API chaos. 2-4 client threads run random programs over the whole public API.
//! Programs are well-formed (callbacks return and only read state; every iterator is owned by a
//! dedicated consumer; every program ends with stop()). Feeds C13.
//! Family W: deterministic witnesses of the known findings.

use crate::core::*;
use crate::hist::*;
use crate::json::J;
use crate::script::*;
use crate::world::*;
use crate::Outcome;
use rs_store::{Dispatcher, Subscription};
use std::collections::HashSet;
use std::sync::Arc;

#[derive(Clone, Debug)]
pub struct GCfg {
    pub policy: u8,
    pub cap: usize,
    pub n_red: u32,
    pub n_mw: u32,
    pub progs: Vec<Vec<u8>>,
    pub iters: Vec<bool>,
    /// hazardous operations (early iterator drop, iter() after shutdown): known findings
    pub hazard: u8,
    /// iterator consumers do not start consuming until every client thread's first subscribe call
    /// has returned (the reducer is then blocked handing a pair to the iterator)
    pub lazy: bool,
    /// all client threads first hammer the (small, blocking) queue; thread 0 calls iter() in the middle of
    /// it, i.e. while other callers are parked inside dispatch on a full queue
    pub late_iter: bool,
    pub perturb: u8,
    pub scripts: Vec<Script>,
}

const OP_NAMES: [&str; 14] = ["dispatch", "dispatch(Store)", "dispatch(Dispatcher)", "dispatch_thunk", "get_state", "get_metrics", "add_subscriber", "subscribe_with_selector", "subscribed_with", "unsubscribe_one", "add_reducer", "add_middleware", "dispatch_task", "close"];

pub fn gen(rng: &mut Rng, tiny: bool, thorough: bool) -> GCfg {
    let n_threads = if tiny { 2 } else { rng.range(2, 4) } as usize;
    let mut progs = Vec::new();
    for _ in 0..n_threads {
        let n = if tiny { rng.range(2, 4) } else { rng.range(3, 14) };
        let mut p = Vec::new();
        for _ in 0..n {
            let op = match rng.below(20) {
                0..=5 => rng.below(4) as u8,
                6 | 7 => 4,
                8 => 5,
                9 | 10 => 6,
                11 => 7,
                12 | 13 => 8,
                14 | 15 => 9,
                16 => 10,
                17 => 11,
                18 => 12,
                _ => 13,
            };
            p.push(op);
        }
        progs.push(p);
    }
    let mut scripts = vec![Script::plain()];
    for _ in 0..5 {
        let mut sc = Script::plain();
        match rng.below(5) {
            0 => sc.keep = 0xff,
            1 => {
                let kind = rng.below(4) as u8;
                sc.eff[0] = Some(EffSpec { kind, follow_script: 0, n_follow: 1, panic: kind != EK_ACTION && rng.chance(1, 4), gate: NOGATE })
            }
            2 => sc.mw[0][0] = *rng.pick(&[V_DONE, V_BREAK, V_ERR]),
            _ => {}
        }
        sc.sel = rng.below(3) as u8;
        scripts.push(sc);
    }
    let iters: Vec<bool> = (0..n_threads).map(|_| rng.chance(1, 3)).collect();
    let policy = rng.below(3) as u8;
    let lazy = policy == POL_BLOCK && iters.iter().any(|x| *x) && rng.chance(1, 2);
    let late_iter = policy == POL_BLOCK && !lazy && rng.chance(1, 3);
    let cap = *rng.pick(&[1usize, 2, 5, 16]);
    GCfg {
        lazy,
        late_iter,
        policy,
        cap: if late_iter { 1 + cap % 2 } else { cap },
        n_red: rng.range(1, 2) as u32,
        n_mw: rng.below(2) as u32,
        iters,
        hazard: if thorough && !tiny && rng.chance(1, 150) { rng.range(1, 2) as u8 } else { 0 },
        progs,
        perturb: rng.below(3) as u8,
        scripts,
    }
}

pub fn describe(c: &GCfg) -> J {
    J::obj(vec![
        ("family", J::s("G")),
        ("policy", J::s(POL_NAMES[c.policy as usize])),
        ("capacity", J::U(c.cap as u64)),
        ("reducers", J::U(c.n_red as u64)),
        ("middlewares", J::U(c.n_mw as u64)),
        ("programs", J::A(c.progs.iter().enumerate().map(|(i, p)| J::s(format!("{}{}; stop; unsubscribe all", if c.iters[i] { "iter()+consumer; " } else { "" }, p.iter().map(|o| OP_NAMES[*o as usize]).collect::<Vec<_>>().join("; ")))).collect())),
        ("lazy_consumers", J::B(c.lazy)),
        ("iter_called_while_callers_are_parked_on_the_full_queue", J::B(c.late_iter)),
        ("hazard", J::s(["none", "iterator dropped before end of stream", "iter() after shutdown"][c.hazard as usize])),
    ])
}

const MARK_GIVEUP: u32 = 900;

/// consumer: reads the iterator to the end (or drops it early when `early` is set)
fn consume(w: &W, id: u32, mut it: Box<dyn Iterator<Item = (St, Act)> + Send>, early: Option<&Counter>, lazy: Option<(&Counter, u64)>) {
    if let Some((c, n)) = lazy {
        c.wait_at_least(n, 30);
    }
    if let Some(c) = early {
        // hazard: wait (briefly) until something was notified, then drop without reading; if nothing
        // notifies, the drop is harmless and the scenario just ends
        c.wait_at_least(1, 1);
        w.ctx.ev(K::ItDropInv, 0, 0, id, 0, 0, 1);
        drop(it);
        w.ctx.ev(K::ItDropRet, 0, 0, id, 0, 0, 1);
        return;
    }
    loop {
        w.ctx.ev(K::ItInv, 0, 0, id, 0, 0, 0);
        match it.next() {
            Some((st, act)) => {
                w.ctx.evz(K::ItNext, 0, act.id, id, st.digest(), st.steps, st.valid() as u8, act.script);
                w.ctx.perturb();
            }
            None => {
                w.ctx.ev(K::ItNext, 0, 0, id, 0, 0, 0);
                break;
            }
        }
    }
    w.ctx.ev(K::ItDropInv, 0, 0, id, 0, 0, 0);
    drop(it);
    w.ctx.ev(K::ItDropRet, 0, 0, id, 0, 0, 0);
}

pub fn execute(c: &GCfg, seed: u64) -> W {
    let ctx = Ctx::new(ScriptSrc::Table(c.scripts.clone()), 1, seed, c.perturb, true);
    let w = W::new(ctx, vec![StoreCfg { policy: c.policy, cap: c.cap, n_red: c.n_red, n_mw: c.n_mw, name: "rsvg".into(), ctor: 0 }]);
    // sentinel: its on_unsubscribe is the last thing the reducer loop does
    let sentinel_unsub = Arc::new(Counter::new());
    let notified = Arc::new(Counter::new());
    let sid = {
        let mut subs = w.subs.lock().unwrap();
        let id = subs.len() as u32;
        subs.push(SubInfo { id, store: 0, kind: SK_DIRECT, cap: 0, policy: 0, twin: None, at_build: true, shared: false });
        id
    };
    let mut sub = w.mk_sub(0, sid, NOGATE, false, 1);
    sub.unsub_counter = Some(sentinel_unsub.clone());
    sub.counter = Some(notified.clone());
    let _keep = w.add_sub_arc(0, sid, Arc::new(sub), false);
    let ready = Counter::new();
    let subs_done = Counter::new();
    let hammered = Counter::new();
    let n_scripts = c.scripts.len() as u64;
    let n_threads = c.progs.len() as u64;
    std::thread::scope(|sc| {
        let mut hs = Vec::new();
        for (t, prog) in c.progs.iter().enumerate() {
            let w = &w;
            let ready = &ready;
            let subs_done = &subs_done;
            let hammered = &hammered;
            let notified = &notified;
            hs.push(std::thread::Builder::new().name(format!("client{}", t)).spawn_scoped(sc, move || {
                let mut rng = Rng::new(mix(seed, 3000 + t as u64));
                let mut subs: Vec<(u32, Box<dyn Subscription>)> = Vec::new();
                let mut consumer = None;
                // phase 1: iterators are created before anybody may shut the store down
                if c.iters[t] {
                    let (id, it) = w.add_iter(0, false);
                    let early = c.hazard == 1 && t == c.iters.iter().position(|x| *x).unwrap_or(99);
                    consumer = Some(std::thread::Builder::new().name(format!("consumer{}", t)).spawn_scoped(sc, move || consume(w, id, it, if early { Some(notified.as_ref()) } else { None }, if c.lazy { Some((subs_done, n_threads)) } else { None })).unwrap());
                }
                ready.add(1);
                ready.wait_at_least(n_threads, 60);
                let mut k = 0u32;
                if c.lazy {
                    // two notifying actions: the second one blocks the reducer in the iterator's
                    // on_notify (rendezvous channel, consumer not reading yet); a subscribe call made
                    // now must still return
                    if t == 0 {
                        for j in 0..2 {
                            w.dispatch(0, EP_INHERENT, Act { id: act_id(0, 40, j + 1), script: 0 });
                        }
                    }
                    notified.wait_at_least(2, 20);
                    subs.push(w.add_direct(0, NOGATE, false, false, false));
                    subs_done.add(1);
                }
                let mut late_consumer = None;
                if c.late_iter {
                    let n = if cfg!(miri) { 4 } else { 12 };
                    for j in 0..n {
                        if t == 0 && j == n / 3 {
                            let (id, it) = w.add_iter(0, false);
                            late_consumer = Some(std::thread::Builder::new().name("consumerL".into()).spawn_scoped(sc, move || consume(w, id, it, None, None)).unwrap());
                        }
                        w.dispatch(0, j % 3, Act { id: act_id(0, 20 + t as u32, j + 1), script: 0 });
                    }
                    // nobody shuts the store down before every thread is through this phase
                    hammered.add(1);
                    hammered.wait_at_least(n_threads, 60);
                }
                for op in prog {
                    w.ctx.perturb();
                    k += 1;
                    let act = Act { id: act_id(0, t as u32 + 1, k), script: rng.below(n_scripts) as u32 };
                    match op {
                        0..=3 => {
                            w.dispatch(0, *op as u32, act);
                        }
                        4 => {
                            w.read(0);
                        }
                        5 => {
                            w.metrics(0);
                        }
                        6 => subs.push(w.add_direct(0, NOGATE, false, false, rng.chance(1, 2))),
                        7 => subs.push(w.add_selector(0, false)),
                        8 => {
                            if rng.chance(1, 2) {
                                // slow subscriber: its channel is often full when it is unsubscribed or the store stops
                                subs.push(w.add_channeled_sub(0, rng.range(1, 2) as usize, rng.below(3) as u8, false, |sub| {
                                    sub.hook = Some(Arc::new(|c: &Arc<Ctx>, _st: &St, _a: &Act| {
                                        if !cfg!(miri) {
                                            std::thread::sleep(std::time::Duration::from_micros(80));
                                        }
                                        c.perturb();
                                    }));
                                }));
                            } else {
                                subs.push(w.add_channeled(0, rng.range(1, 3) as usize, rng.below(3) as u8, NOGATE, false, false, false));
                            }
                        }
                        9 => {
                            if !subs.is_empty() {
                                let i = rng.below(subs.len() as u64) as usize;
                                let (id, sn) = subs.remove(i);
                                w.unsubscribe(0, id, sn.as_ref());
                            }
                        }
                        10 => {
                            w.add_reducer(0);
                        }
                        11 => {
                            w.add_middleware(0);
                        }
                        12 => {
                            let cx = w.ctx.clone();
                            let id = act.id;
                            w.ctx.ev(K::TInv, 0, id, 1, 0, 0, 0);
                            Dispatcher::dispatch_task(&w.stores[0], Box::new(move || {
                                cx.ev(K::EBeg, 0, id, 0xfe, 0, 0, 0);
                                cx.ev(K::EEnd, 0, id, 0xfe, 0, 0, 0);
                            }));
                            w.ctx.ev(K::TRet, 0, id, 1, 0, 0, 0);
                        }
                        _ => {
                            w.stop(0, STOP_CLOSE);
                        }
                    }
                }
                w.ctx.perturb();
                w.stop(0, if t % 2 == 0 { STOP_STOP } else { STOP_TRAIT });
                for (id, sn) in subs.iter() {
                    w.unsubscribe(0, *id, sn.as_ref());
                }
                if c.hazard == 2 && t == 0 {
                    // hazard: iter() after shutdown, consumed on this thread
                    let (id, it) = w.add_iter(0, false);
                    consume(w, id, it, None, None);
                }
                if let Some(h) = consumer {
                    h.join().unwrap();
                }
                if let Some(h) = late_consumer {
                    h.join().unwrap();
                }
            }).unwrap());
        }
        for h in hs {
            h.join().unwrap();
        }
        // stop() must complete because the work is done: if one took >= 2.5 s, tell "slow" from
        // "wedged" by waiting (without polling) for the reducer loop's last act
        let slow = w.ctx.log.bufs.lock().unwrap().iter().any(|(_, b)| b.lock().unwrap().iter().any(|e| e.k == K::StopRet && e.idx != STOP_CLOSE && e.y >= 2500));
        if slow && !sentinel_unsub.wait_at_least(1, 120) {
            w.mark(MARK_GIVEUP, 1);
            w.ctx.gates[0].wait();
        }
        w.read(0);
    });
    w
}

pub fn c13(h: &Hist, v: &mut Verdicts, hazard: u8) {
    v.evaluated.insert("C13");
    let sh = &h.st[0];
    let slow = sh.stops.iter().any(|r| r.how != STOP_CLOSE && r.ms >= 2500);
    if slow && hazard == 0 && !cfg!(miri) {
        // no callback of these programs is parked or slow (microseconds at most): a stop() that took that
        // long and returned before the reducer loop's last act (releasing the sentinel) was completed by
        // its timeout, not because the work was done
        let settled = crate::oracle_a::settled_stop_ret(h, 0);
        let released = h.evs.iter().find(|e| e.k == K::SUnsub && e.idx == 0 && e.store == 0).map(|e| e.seq);
        if released.map(|r| r > settled).unwrap_or(true) {
            let ms = sh.stops.iter().filter(|r| r.how != STOP_CLOSE).map(|r| r.ms).max().unwrap_or(0);
            v.fail("C13", format!("a stop() took {} ms and returned while the reducer loop was still running ({}), although every callback of the program returns within microseconds: it completed because its timeout expired, not because the work was done", ms, match released { Some(r) => format!("subscribers released at seq {}, stop() had returned at seq {}", r, settled), None => "subscribers never released".to_string() }));
            return;
        }
    }
    if slow {
        v.inconcl("C13", "a stop() took >= 2.5 s but the reducer loop finished (slow, not wedged)".into());
        return;
    }
    // completed scenario = every call returned. Check each recorded inv has its ret.
    let mut open = 0;
    let pairs = [(K::DInv, K::DRet), (K::StopInv, K::StopRet), (K::AddInv, K::AddRet), (K::UInv, K::URet), (K::GInv, K::GRet), (K::MetInv, K::MetRet), (K::ItDropInv, K::ItDropRet), (K::TInv, K::TRet)];
    for (ik, rk) in pairs {
        let ni = h.evs.iter().filter(|e| e.k == ik).count();
        let nr = h.evs.iter().filter(|e| e.k == rk).count();
        if ni != nr {
            open += ni.abs_diff(nr);
        }
    }
    if open > 0 {
        v.fail("C13", format!("{} client call(s) have an invocation event without a return event although the scenario finished", open));
    }
    // the sentinel was released exactly once: the reducer loop ran to its end
    let n = h.evs.iter().filter(|e| e.k == K::SUnsub && e.idx == 0).count();
    if n != 1 {
        v.fail("C13", format!("every program called stop() and all stop() calls returned in < 2.5 s, but the reducer loop released the sentinel subscriber {} times (loop not finished)", n));
    }
    let kinds: HashSet<K> = h.evs.iter().filter(|e| matches!(e.k, K::DInv | K::StopInv | K::AddInv | K::UInv | K::GInv | K::MetInv | K::ItInv | K::TInv)).map(|e| e.k).collect();
    let tids: HashSet<u32> = h.evs.iter().filter(|e| matches!(e.k, K::DInv | K::StopInv | K::AddInv | K::UInv)).map(|e| e.tid).collect();
    v.count("c13.client_calls_returned", h.evs.iter().filter(|e| pairs.iter().any(|p| p.1 == e.k)).count() as u64);
    v.count("c13.programs", 1);
    if tids.len() >= 3 && kinds.len() >= 4 {
        v.nontrivial.insert("C13");
    }
}

pub fn run(seed: u64, tiny: bool, thorough: bool) -> Outcome {
    let mut rng = Rng::new(seed);
    let c = gen(&mut rng, tiny, thorough);
    let w = execute(&c, seed);
    let h = Hist::from_world(&w);
    let mut v = Verdicts::default();
    c13(&h, &mut v, c.hazard);
    crate::fam_d::c09(&h, 0, &mut v);
    crate::oracle_a::c08(&h, 0, &mut v);
    Outcome::new(describe(&c), h, v)
}

// ---------------------------------------------------------------------------------------------
// Family W: deterministic witnesses of the known findings (one per index)

pub fn run_witness(seed: u64, index: u64) -> Outcome {
    let mut v = Verdicts::default();
    match index % 4 {
        0 => {
            // F4 / C09: gated S1 registered first, unsubscribe S2 while S1 is parked in on_notify
            let ctx = Ctx::new(ScriptSrc::Table(vec![Script::plain()]), 1, seed, 0, false);
            let w = W::new(ctx, vec![StoreCfg { policy: POL_BLOCK, cap: 4, n_red: 1, n_mw: 0, name: "rsvw".into(), ctor: 0 }]);
            let (_s1, _k1) = w.add_direct(0, 0, true, true, false);
            let (s2, k2) = w.add_direct(0, NOGATE, false, true, false);
            w.dispatch(0, EP_INHERENT, Act { id: act_id(0, 1, 1), script: 0 });
            w.ctx.gates[0].wait_parked(1);
            w.unsubscribe(0, s2, k2.as_ref());
            w.ctx.gates[0].open();
            w.stop(0, STOP_STOP);
            let h = Hist::from_world(&w);
            crate::fam_d::c09(&h, 0, &mut v);
            v.nontrivial.insert("C09");
            Outcome::new(J::obj(vec![("family", J::s("W")), ("witness", J::s("C09 late-notify-inflight: S1 parked in on_notify, unsubscribe(S2), release S1"))]), h, v)
        }
        1 => {
            // F2 / C11: four actions with Task effects, stop() immediately
            let mut sc = Script::plain();
            sc.eff[0] = Some(EffSpec { kind: EK_TASK, follow_script: 0, n_follow: 0, panic: false, gate: NOGATE });
            let ctx = Ctx::new(ScriptSrc::Table(vec![sc]), 1, seed, 0, false);
            let w = W::new(ctx, vec![StoreCfg { policy: POL_BLOCK, cap: 16, n_red: 1, n_mw: 0, name: "rsvw".into(), ctor: 0 }]);
            for k in 0..4 {
                w.dispatch(0, EP_INHERENT, Act { id: act_id(0, 1, k + 1), script: 0 });
            }
            w.stop(0, STOP_STOP);
            let h = Hist::from_world(&w);
            crate::fam_e::c11(&h, 0, &mut v);
            Outcome::new(J::obj(vec![("family", J::s("W")), ("witness", J::s("C11 effect-skipped-after-stop: dispatch x4 (each returns a Task effect); stop()"))]), h, v)
        }
        2 => {
            // F3 / C13 C14: drop an iterator that holds an unread item
            let ctx = Ctx::new(ScriptSrc::Table(vec![Script::plain()]), 1, seed, 0, false);
            let w = W::new(ctx, vec![StoreCfg { policy: POL_BLOCK, cap: 4, n_red: 1, n_mw: 0, name: "rsvw".into(), ctor: 0 }]);
            let notified = Arc::new(Counter::new());
            let (id, it) = w.add_iter(0, true);
            let _t = w.add_direct_counted(0, true, notified.clone());
            w.dispatch(0, EP_INHERENT, Act { id: act_id(0, 1, 1), script: 0 });
            notified.wait_at_least(1, 30);
            w.ctx.ev(K::ItDropInv, 0, 0, id, 0, 0, 1);
            drop(it); // blocks for ever on the unchanged tree
            w.ctx.ev(K::ItDropRet, 0, 0, id, 0, 0, 1);
            w.dispatch(0, EP_INHERENT, Act { id: act_id(0, 1, 2), script: 0 });
            w.stop(0, STOP_STOP);
            let h = Hist::from_world(&w);
            crate::fam_d::c14(&h, 0, &mut v);
            c13_minimal(&h, &mut v);
            Outcome::new(J::obj(vec![("family", J::s("W")), ("witness", J::s("C13/C14 iter-drop-blocking-send: iter(); dispatch; drop(iterator) with an unread item"))]), h, v)
        }
        _ => {
            // F6 / C13: iter() after the store was stopped never ends
            let ctx = Ctx::new(ScriptSrc::Table(vec![Script::plain()]), 1, seed, 0, false);
            let w = W::new(ctx, vec![StoreCfg { policy: POL_BLOCK, cap: 4, n_red: 1, n_mw: 0, name: "rsvw".into(), ctor: 0 }]);
            w.dispatch(0, EP_INHERENT, Act { id: act_id(0, 1, 1), script: 0 });
            w.stop(0, STOP_STOP);
            let (id, it) = w.add_iter(0, false);
            consume(&w, id, it, None, None); // blocks for ever on the unchanged tree
            let h = Hist::from_world(&w);
            c13_minimal(&h, &mut v);
            Outcome::new(J::obj(vec![("family", J::s("W")), ("witness", J::s("C13 iter-after-shutdown: stop(); iter(); next()"))]), h, v)
        }
    }
}

fn c13_minimal(_h: &Hist, v: &mut Verdicts) {
    // reaching this point means every call returned
    v.evaluated.insert("C13");
    v.nontrivial.insert("C13");
    v.count("c13.witness_completed_without_blocking", 1);
}
