//! Supervision of one scenario: runs it on its own thread and decides *stuck* on a logical
//! criterion (clock frozen, a call outstanding, no runnable thread, no CPU consumed), never on
//! elapsed time alone. On stuck it captures call sites with gdb.

use crate::core::*;
use crate::json::J;
use crate::script::PANIC_MARK;
use crate::Outcome;
use std::sync::atomic::Ordering;
use std::sync::mpsc;
use std::time::{Duration, Instant};

pub fn install_panic_hook() {
    let default = std::panic::take_hook();
    std::panic::set_hook(Box::new(move |info| {
        if let Some(s) = info.payload().downcast_ref::<&str>() {
            if *s == PANIC_MARK {
                return;
            }
        }
        let msg = info.payload().downcast_ref::<String>().cloned().unwrap_or_default();
        if msg.contains("no dispatch failed") {
            // Effect::Action racing with close(): the store's own expect(); allowed by C11
            return;
        }
        default(info);
    }));
}

#[cfg(not(miri))]
fn thread_states() -> Option<(bool, u64)> {
    // (all threads except this one sleeping, total cpu ticks)
    let me = unsafe_gettid();
    let mut all_sleeping = true;
    let mut ticks = 0u64;
    for ent in std::fs::read_dir("/proc/self/task").ok()? {
        let ent = ent.ok()?;
        let tid: u64 = ent.file_name().to_string_lossy().parse().ok()?;
        let stat = match std::fs::read_to_string(ent.path().join("stat")) {
            Ok(s) => s,
            Err(_) => continue,
        };
        let rest = &stat[stat.rfind(')')? + 2..];
        let f: Vec<&str> = rest.split(' ').collect();
        let state = f.first()?.chars().next()?;
        let ut: u64 = f.get(11)?.parse().ok()?;
        let stt: u64 = f.get(12)?.parse().ok()?;
        ticks += ut + stt;
        if tid != me && state != 'S' {
            all_sleeping = false;
        }
    }
    Some((all_sleeping, ticks))
}

#[cfg(not(miri))]
fn unsafe_gettid() -> u64 {
    std::fs::read_link("/proc/thread-self").ok().and_then(|p| p.file_name().map(|f| f.to_string_lossy().parse().unwrap_or(0))).unwrap_or(0)
}

#[cfg(not(miri))]
fn strip_generics(f: &str) -> String {
    let mut out = String::new();
    let mut depth = 0i32;
    for c in f.chars() {
        match c {
            '<' => depth += 1,
            '>' => depth -= 1,
            c if depth == 0 => out.push(c),
            _ => {}
        }
    }
    out
}

#[cfg(not(miri))]
fn gdb_stacks() -> Vec<String> {
    let pid = std::process::id();
    // gdb's output goes to a file, never to a pipe read by this (ptrace-stopped) process, and gdb
    // itself runs under `timeout` so a wedged debugger cannot hold the process stopped for ever
    let path = std::env::temp_dir().join(format!("rsv-gdb-{}.txt", pid));
    let out = std::fs::File::create(&path).ok().and_then(|f| {
        let f2 = f.try_clone().ok()?;
        std::process::Command::new("timeout")
            .args(["-s", "KILL", "60", "gdb", "-p", &pid.to_string(), "-batch", "-nx", "-ex", "set pagination off", "-ex", "thread apply all bt 40"])
            .stdin(std::process::Stdio::null())
            .stdout(f)
            .stderr(f2)
            .status()
            .ok()
    });
    let text_all = std::fs::read_to_string(&path).unwrap_or_default();
    let _ = std::fs::remove_file(&path);
    let mut res = Vec::new();
    if out.is_some() {
        let text = text_all;
        let mut cur: Vec<String> = Vec::new();
        for line in text.lines() {
            if line.starts_with("Thread ") {
                if !cur.is_empty() {
                    res.push(cur.join(" < "));
                }
                cur = vec![line.split('(').next().unwrap_or(line).trim().to_string()];
            } else if line.starts_with('#') {
                let f = match line.find(" in ") {
                    Some(p) => line[p + 4..].to_string(),
                    None => line.splitn(2, "  ").nth(1).unwrap_or("").to_string(),
                };
                let f = strip_generics(f.split(" (").next().unwrap_or(""));
                if f.starts_with("rs_store::") || f.starts_with("rsv::") || std::env::var("RSV_FULL_STACKS").is_ok() {
                    cur.push(f);
                }
            }
        }
        if !cur.is_empty() {
            res.push(cur.join(" < "));
        }
    }
    res
}

/// What the event log says about the stuck scenario: open client operations and the two history
/// conditions that the known iterator findings require.
#[cfg(not(miri))]
fn stuck_history() -> J {
    let log = match CURRENT.lock().unwrap().clone() {
        Some(l) => l,
        None => return J::Null,
    };
    let (evs, names) = log.merged();
    let mut open: Vec<String> = Vec::new();
    let mut first_shutdown = u64::MAX;
    let mut early_drop_open = false;
    let mut early_drop_done = false;
    let mut iter_after_shutdown = false;
    let mut late_iters: Vec<u32> = Vec::new();
    let mut open_next_late = false;
    let mut other_open = 0u64;
    let pair = |k: K| match k {
        K::DInv => Some(K::DRet),
        K::StopInv => Some(K::StopRet),
        K::AddInv => Some(K::AddRet),
        K::UInv => Some(K::URet),
        K::ItInv => Some(K::ItNext),
        K::ItDropInv => Some(K::ItDropRet),
        K::GInv => Some(K::GRet),
        K::MetInv => Some(K::MetRet),
        K::TInv => Some(K::TRet),
        _ => None,
    };
    for (i, e) in evs.iter().enumerate() {
        if e.k == K::StopInv {
            first_shutdown = first_shutdown.min(e.seq);
        }
        if e.k == K::AddRet && e.r == 2 && e.x == 3 && e.seq > first_shutdown {
            iter_after_shutdown = true;
            late_iters.push(e.idx);
        }
        if e.k == K::ItDropInv && e.r == 1 {
            early_drop_done = true;
        }
        if let Some(rk) = pair(e.k) {
            let closed = evs[i + 1..].iter().any(|x| x.tid == e.tid && x.k == rk);
            if !closed {
                open.push(format!("t{} '{}' {} a={} idx={} (seq {})", e.tid, names.get(e.tid as usize).cloned().unwrap_or_default(), e.k.name(), crate::script::id_str(e.a), e.idx, e.seq));
                if e.k == K::ItDropInv && e.r == 1 {
                    early_drop_open = true;
                } else if e.k == K::ItInv && late_iters.contains(&e.idx) {
                    open_next_late = true;
                } else {
                    other_open += 1;
                }
            }
        }
    }
    let tail: Vec<J> = evs.iter().rev().take(60).rev().map(|e| J::s(format!("{} t{} {} a={} idx={} r={}", e.seq, e.tid, e.k.name(), crate::script::id_str(e.a), e.idx, e.r))).collect();
    J::obj(vec![
        ("open_calls", J::A(open.into_iter().map(J::S).collect())),
        ("iterator_dropped_before_end_of_stream", J::B(early_drop_done)),
        ("iterator_drop_still_open", J::B(early_drop_open)),
        ("iterator_created_after_shutdown", J::B(iter_after_shutdown)),
        ("open_next_on_iterator_created_after_shutdown", J::B(open_next_late)),
        ("other_open_calls", J::U(other_open)),
        ("last_events", J::A(tail)),
    ])
}

/// Run `f` on a fresh thread. Err(report) = the scenario is stuck (logical criterion) or exceeded
/// the inconclusive cap; the report says which.
pub fn supervise<F: FnOnce() -> Outcome + Send + 'static>(f: F) -> Result<Outcome, J> {
    #[cfg(miri)]
    {
        // under Miri: no extra threads and no /proc; Miri itself reports deadlocks
        return Ok(f());
    }
    #[cfg(not(miri))]
    {
        let (tx, rx) = mpsc::channel();
        let _ = std::thread::Builder::new().name("scn".into()).spawn(move || {
            let o = f();
            let _ = tx.send(o);
        });
        let t0 = Instant::now();
        let mut last_progress = PROGRESS.load(Ordering::Relaxed);
        let mut frozen_since = Instant::now();
        loop {
            match rx.recv_timeout(Duration::from_millis(500)) {
                Ok(o) => return Ok(o),
                Err(mpsc::RecvTimeoutError::Disconnected) => {
                    return Err(J::obj(vec![("kind", J::s("harness-panic"))]));
                }
                Err(mpsc::RecvTimeoutError::Timeout) => {}
            }
            let p = PROGRESS.load(Ordering::Relaxed);
            if p != last_progress {
                last_progress = p;
                frozen_since = Instant::now();
            }
            if frozen_since.elapsed() >= Duration::from_secs(5) {
                // clock frozen for 5 s (> the store's only timer, the 3 s join timeout): sample twice
                let a = thread_states();
                std::thread::sleep(Duration::from_millis(1000));
                let b = thread_states();
                let quiet = matches!((a, b), (Some((true, t1)), Some((true, t2))) if t1 == t2);
                if quiet && PROGRESS.load(Ordering::Relaxed) == last_progress {
                    let stacks = gdb_stacks();
                    return Err(J::obj(vec![
                        ("kind", J::s("stuck")),
                        ("history", stuck_history()),
                        ("outstanding_calls", J::I(OUTSTANDING.load(Ordering::Relaxed))),
                        ("frozen_ms", J::U(frozen_since.elapsed().as_millis() as u64)),
                        ("stacks", J::A(stacks.into_iter().map(J::S).collect())),
                    ]));
                }
            }
            if t0.elapsed() >= Duration::from_secs(90) {
                return Err(J::obj(vec![("kind", J::s("inconclusive-cap")), ("elapsed_s", J::U(t0.elapsed().as_secs()))]));
            }
        }
    }
}
