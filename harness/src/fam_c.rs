//! Family C: backpressure. Gated "stepper" reducer turns dispatch/step programs into exact
//! send/receive sequences on the real bounded queue. Feeds C05, C06 (and C18).

use crate::core::*;
use crate::hist::*;
use crate::json::J;
use crate::oracle_a::*;
use crate::script::*;
use crate::world::*;
use crate::Outcome;
use std::collections::{HashMap, HashSet};
use std::sync::atomic::{AtomicBool, Ordering};

#[derive(Clone, Debug)]
pub struct CCfg {
    pub variant: u8, // 0 C05 gated, 1 C05 ungated, 2 C06 gated burst, 3 C06 running
    pub policy: u8,
    pub cap: usize,
    pub n_red: u32,
    pub n_mw: u32,
    pub n_prod: usize,
    pub per_prod: usize,
    pub ep: Vec<u32>,
    pub perturb: u8,
    pub grace_us: u64,
    /// one long stall (ms) with the queue full and callers blocked: exposes timed waits in the send
    /// path. Virtual (free) under Miri, rare natively.
    pub long_stall_ms: u64,
    /// drop-policy scenarios: stop() right after the burst, without draining (the exit marker then
    /// goes through the policy on a full queue; only conservation is judged)
    pub no_drain: bool,
    /// reducer-running variants: two of three actions' first reducer returns an Effect::Action (a follow-up
    /// action the store dispatches to itself from its pool)
    pub followups: bool,
    /// gated burst: close() is called while the reducer is still parked and the queue is full, then one
    /// more dispatch is made; neither may wait for the reducer
    pub close_parked: bool,
}

pub fn gen(rng: &mut Rng, tiny: bool, focus: &str) -> CCfg {
    let c05 = match focus {
        "C05" => true,
        "C06" => false,
        _ => rng.chance(1, 2),
    };
    let gated = rng.chance(3, 5);
    let variant = match (c05, gated) {
        (true, true) => 0,
        (true, false) => 1,
        (false, true) => 2,
        (false, false) => 3,
    };
    let cap = if tiny { *rng.pick(&[1usize, 2]) } else if rng.chance(1, 120) { *rng.pick(&[1500usize, 4096]) } else { *rng.pick(&[1usize, 2, 3, 5, 16]) };
    let n_prod = if tiny { rng.range(1, 2) } else { rng.range(1, 4) } as usize;
    let total = if tiny { cap + 1 + rng.below(2) as usize } else if cap > 1000 { cap + 1 + rng.below(40) as usize } else { rng.range(cap as u64 + 1, 3 * cap as u64 + 3) as usize };
    let per_prod = (total + n_prod - 1) / n_prod;
    let policy = if c05 { POL_BLOCK } else { rng.range(1, 2) as u8 };
    let n_ep = if c05 { 3 } else { 3 };
    let n_red = rng.range(1, 2) as u32;
    let n_mw = rng.below(2) as u32;
    let ep = (0..4).map(|_| rng.below(n_ep) as u32).collect();
    let perturb = if gated { rng.below(2) as u8 } else { 2 };
    let grace_us = if tiny { 0 } else { *rng.pick(&[0u64, 200, 1000, 3000]) };
    let no_drain = !c05 && rng.chance(1, 3);
    let long_stall_ms = if cfg!(miri) { 40_000 } else if !tiny && variant == 0 && focus == "C05" && rng.chance(1, 100) { 1100 } else if !tiny && variant == 0 && rng.chance(1, 800) { *rng.pick(&[1100u64, 2300, 3600]) } else { 0 };
    let close_parked = variant == 2 && rng.chance(1, 4);
    let followups = (variant == 1 || (variant == 3 && !no_drain)) && rng.chance(1, 2);
    CCfg {
        variant,
        policy,
        cap,
        n_red,
        n_mw,
        n_prod,
        per_prod: if followups && variant == 3 && cap < 1000 { per_prod * 3 } else { per_prod },
        ep,
        perturb,
        grace_us,
        no_drain,
        long_stall_ms,
        followups,
        close_parked,
    }
}

pub fn describe(c: &CCfg) -> J {
    J::obj(vec![
        ("family", J::s("C")),
        ("variant", J::s(["C05 gated stepper", "C05 ungated stalls", "C06 gated burst", "C06 reducer running"][c.variant as usize])),
        ("policy", J::s(POL_NAMES[c.policy as usize])),
        ("capacity", J::U(c.cap as u64)),
        ("reducers", J::U(c.n_red as u64)),
        ("middlewares", J::U(c.n_mw as u64)),
        ("producers", J::U(c.n_prod as u64)),
        ("actions_per_producer", J::U(c.per_prod as u64)),
        ("entry_points", J::A(c.ep.iter().map(|e| J::s(EP_NAMES[*e as usize])).collect())),
        ("grace_us", J::U(c.grace_us)),
        ("long_stall_ms", J::U(c.long_stall_ms)),
        ("stop_without_draining", J::B(c.no_drain)),
        ("close_and_dispatch_while_reducer_parked_on_full_queue", J::B(c.close_parked)),
        ("two_of_three_actions_return_effect_action", J::B(c.followups)),
    ])
}

const MARK_GIVEUP: u32 = 900;
/// x = 1: every follow-up action issued so far was taken or counted as dropped, nothing queued, reducer idle
const MARK_FOLLOWUPS: u32 = 6;
const FOLLOWUP_SCRIPT: u32 = 3;
/// x = microseconds between "the reducer is parked in the next action" and the return of the dispatch this
/// made room for, for callers that had been blocked through a long stall
const MARK_RESUME_US: u32 = 17;

pub fn execute(c: &CCfg, seed: u64) -> W {
    let gated = c.variant == 0 || c.variant == 2;
    // script 0: every action parks reducer 0 at gate 0 (stepper); script 1: plain; script 2: plug
    let mut stepper = Script::plain();
    stepper.rgate = 0;
    let mut parent = Script::plain();
    parent.eff[0] = Some(EffSpec { kind: EK_ACTION, follow_script: 1, n_follow: 1, panic: false, gate: NOGATE });
    let scripts = vec![stepper.clone(), Script::plain(), stepper, parent];
    let ctx = Ctx::new(ScriptSrc::Table(scripts), 2, seed, c.perturb, false);
    let w = W::new(ctx, vec![StoreCfg { policy: c.policy, cap: c.cap, n_red: c.n_red, n_mw: c.n_mw, name: "rsvc".into(), ctor: 0 }]);
    let notified = std::sync::Arc::new(Counter::new());
    let keep = w.add_direct_counted(0, true, notified.clone());
    let returned = Counter::new();
    let total = (c.n_prod * c.per_prod) as u64;
    let gate = &w.ctx.gates[0];
    let gave_up = AtomicBool::new(false);
    let give_up = |what: u64| {
        // a harness-side wait did not complete: park quietly so the watchdog can judge the state
        gave_up.store(true, Ordering::Relaxed);
        w.mark(MARK_GIVEUP, what);
        w.ctx.gates[1].wait();
    };
    let start_burst_c = Counter::new();
    std::thread::scope(|sc| {
        let script_for = |_p: usize, k: usize| -> u32 {
            match c.variant {
                0 => 0,
                _ if c.followups && k % 3 != 1 => FOLLOWUP_SCRIPT,
                _ => 1,
            }
        };
        let mut hs = Vec::new();
        let start_burst = &start_burst_c;
        for p in 0..c.n_prod {
            let w = &w;
            let returned = &returned;
            hs.push(std::thread::Builder::new().name(format!("prod{}", p + 1)).spawn_scoped(sc, move || {
                let mut rng = Rng::new(mix(seed, 77 + p as u64));
                if c.variant == 2 {
                    start_burst.wait_at_least(1, 60);
                }
                for k in 0..c.per_prod {
                    let ep = c.ep[rng.below(c.ep.len() as u64) as usize];
                    w.ctx.perturb();
                    w.dispatch(0, ep, Act { id: act_id(0, p as u32 + 1, k as u32 + 1), script: script_for(p, k) });
                    returned.add(1);
                }
            }).unwrap());
        }
        match c.variant {
            0 => {
                // stepper: one token at a time; before each token wait for the exact quiescent point
                let mut taken = 0u64;
                let mut stalled = false;
                let mut stalls = 0u32;
                let mut last_stall_at = 0u64;
                loop {
                    // reducer parked inside action number taken+1
                    if !gate.wait_parked(1) {
                        give_up(1);
                    }
                    taken += 1;
                    // every dispatch that can return has returned: returned == min(total, taken + cap)
                    let expect = total.min(taken + c.cap as u64);
                    let t_parked = std::time::Instant::now();
                    if !returned.wait_at_least(expect, 20) {
                        give_up(2);
                    }
                    if stalled && expect > total.min(taken - 1 + c.cap as u64) {
                        // a caller that was blocked while the reducer stood still has been let in by this
                        // step: how long after room was made (the reducer is already parked in the next
                        // action) did its dispatch return?
                        w.mark(MARK_RESUME_US, t_parked.elapsed().as_micros() as u64);
                    }
                    // grace: lets an over-admitting queue show itself (detection power only)
                    if c.grace_us > 0 {
                        std::thread::sleep(std::time::Duration::from_micros(c.grace_us));
                    }
                    // (natively a second stall two steps later, so that two callers sit one out each)
                    if c.long_stall_ms > 0 && expect < total && (!stalled || (!cfg!(miri) && stalls < 2 && taken >= last_stall_at + 2)) {
                        stalls += 1;
                        last_stall_at = taken;
                        // callers are blocked on a full queue right now: keep the reducer parked
                        stalled = true;
                        std::thread::sleep(std::time::Duration::from_millis(c.long_stall_ms));
                    }
                    w.mark(1, taken);
                    if taken == total {
                        gate.open();
                        break;
                    }
                    let before = gate.passed();
                    gate.add(1);
                    if !gate.wait_passed(before + 1) {
                        give_up(3);
                    }
                }
            }
            2 => {
                // plug parks the reducer; burst while parked; release; drain; stop
                w.dispatch(0, EP_INHERENT, Act { id: act_id(0, 50, 1), script: 2 });
                if !gate.wait_parked(1) {
                    give_up(4);
                }
                w.mark(2, 0);
                start_burst.add(1);
                if !returned.wait_at_least(total, 20) {
                    // a drop policy must never block while the reducer is not consuming
                    give_up(5);
                }
                if c.grace_us > 0 {
                    std::thread::sleep(std::time::Duration::from_micros(c.grace_us));
                }
                w.mark(3, 0);
                if c.close_parked {
                    let w = &w;
                    std::thread::scope(|s2| {
                        std::thread::Builder::new().name("closer".into()).spawn_scoped(s2, move || w.stop(0, STOP_CLOSE)).unwrap();
                        // probe once close() has returned; if it has not after a while, probe anyway (the
                        // probe then races close(): the conservation check is skipped for such a run)
                        let t0 = std::time::Instant::now();
                        while crate::fam_a::count_kind(w, K::StopRet, STOP_CLOSE) == 0 && t0.elapsed().as_millis() < 100 {
                            std::thread::yield_now();
                        }
                        w.dispatch(0, c.ep[0], Act { id: act_id(0, 51, 1), script: 1 });
                        gate.open();
                    });
                } else {
                    gate.open();
                }
            }
            _ => {}
        }
        for h in hs {
            h.join().unwrap();
        }
        // drain before stop so that the exit marker's own (legitimate, counted) eviction does not
        // blur the survivor set: wait for the reducer to go idle on the expected number of actions
        if c.policy != POL_BLOCK && !c.no_drain && !c.close_parked {
            if c.variant == 2 {
                // every survivor of the burst notifies the sentinel (scripts are plain Dispatch)
                let expect = 1 + (c.cap as u64).min(total);
                if notified.wait_at_least(expect, 2) {
                    // drained: the exit marker cannot evict a survivor any more
                    w.mark(5, 0);
                }
            } else {
                let t0 = std::time::Instant::now();
                let mut last = (0u64, std::time::Instant::now());
                loop {
                    let n = notified.get();
                    if n != last.0 {
                        last = (n, std::time::Instant::now());
                    }
                    let idle_ms = if cfg!(miri) { 200 } else { 3 };
                    if last.1.elapsed().as_millis() >= idle_ms || t0.elapsed().as_secs() >= 2 * CAP_SCALE {
                        break;
                    }
                    std::thread::yield_now();
                }
            }
        }
        if c.followups && c.policy != POL_BLOCK {
            // exact quiescence: the sentinel has been told about every action taken, and received + dropped
            // accounts for every client action plus every follow-up issued (none queued, none in a thunk)
            let settled = crate::fam_a::wait_until(|| {
                let m = w.metrics(0);
                let issued = crate::fam_a::count_where(&w, |e| e.k == K::RBeg && e.idx == 0 && e.z == FOLLOWUP_SCRIPT);
                notified.get() == m[0] && m[0] + m[1] >= total + issued && notified.get() == w.metrics(0)[0]
            });
            w.mark(MARK_FOLLOWUPS, settled as u64);
        }
        w.mark(4, 0);
        w.stop(0, STOP_STOP);
        w.read(0);
        w.metrics(0);
    });
    drop(keep);
    let _ = gave_up;
    w
}

// ---------------------------------------------------------------------------------------------

/// windows [GateWait, GateGo] of reducer 0 parked at gate 0
fn parked_windows(h: &Hist, s: u8) -> Vec<(u64, u64)> {
    let mut v = Vec::new();
    let mut open: Option<u64> = None;
    for e in h.evs.iter().filter(|e| e.store == s && e.idx == 0) {
        match e.k {
            K::GateWait => open = Some(e.seq),
            K::GateGo => {
                if let Some(b) = open.take() {
                    v.push((b, e.seq));
                }
            }
            _ => {}
        }
    }
    if let Some(b) = open {
        v.push((b, INF));
    }
    v
}

pub fn c05(h: &Hist, s: u8, v: &mut Verdicts) {
    let cfg = &h.cfg[s as usize];
    if cfg.policy != POL_BLOCK {
        return;
    }
    let sh = &h.st[s as usize];
    v.evaluated.insert("C05");
    if stop_timed_out(h, s) {
        v.inconcl("C05", "stop() hit its timeout".into());
        return;
    }
    let wins = parked_windows(h, s);
    let in_win = |seq: u64| wins.iter().any(|(b, e)| *b < seq && seq < *e);
    let first_of: HashMap<u64, u32> = sh.acts.iter().map(|(a, ar)| (ar.first, *a)).collect();
    let mut ok_ret = 0i64;
    let mut taken = 0i64;
    let mut max_out = 0i64;
    let mut max_out_parked = 0i64;
    let mut full_parked = 0u64;
    let mut open_at_full: HashSet<u32> = HashSet::new();
    let mut pending: HashSet<u32> = HashSet::new();
    let mut blocked_then_returned = 0u64;
    for e in h.evs.iter().filter(|e| e.store == s) {
        // (follow-up actions the store dispatches to itself have no recorded dispatch call: not counted
        // on either side)
        if first_of.get(&e.seq).map(|a| h.disp.contains_key(a)).unwrap_or(false) {
            taken += 1;
        }
        match e.k {
            K::DInv => {
                pending.insert(e.a);
            }
            K::DRet => {
                pending.remove(&e.a);
                if open_at_full.remove(&e.a) {
                    blocked_then_returned += 1;
                }
                if e.r == 0 {
                    ok_ret += 1;
                    let parked = in_win(e.seq);
                    let bound = cfg.cap as i64 + if parked { 0 } else { 1 };
                    let out = ok_ret - taken;
                    max_out = max_out.max(out);
                    if parked {
                        max_out_parked = max_out_parked.max(out);
                    }
                    if out > bound {
                        v.fail(
                            "C05",
                            format!(
                                "store {} (BlockOnFull, capacity {}): when dispatch of {} returned at seq {}, {} dispatches had been accepted but only {} actions taken by the reducer{} - {} queued, bound {}",
                                s, cfg.cap, id_str(e.a), e.seq, ok_ret, taken, if parked { " (reducer parked at a gate: exact count)" } else { "" }, out, bound
                            ),
                        );
                        break;
                    }
                }
            }
            K::Mark if e.idx == 1 => {
                // controller's quiescent point
                if ok_ret - taken == cfg.cap as i64 {
                    full_parked += 1;
                    for a in &pending {
                        open_at_full.insert(*a);
                    }
                }
            }
            K::Mark if e.idx == MARK_GIVEUP => {
                v.inconcl("C05", "controller gave up waiting".into());
            }
            _ => {}
        }
    }
    // "resumes as soon as the reducer makes room": callers that sat out a long stall. Wall-clock, so only a
    // repeated, gross delay counts (natively; two or more resumptions each >= 100 ms after room was made)
    let slow: Vec<u64> = h.evs.iter().filter(|e| e.k == K::Mark && e.idx == MARK_RESUME_US).map(|e| e.x).collect();
    if !cfg!(miri) && slow.iter().filter(|us| **us >= 100_000).count() >= 2 {
        v.fail("C05", format!("store {} (BlockOnFull, capacity {}): callers blocked on the full queue through a long stall resumed {:?} microseconds after the reducer had made room for them (it was already parked in the next action): they do not resume as soon as there is room", s, cfg.cap, slow));
    }
    v.count("c05.resumptions_after_long_stall_timed", slow.len() as u64);
    v.maxc("c05.max_resume_us_after_long_stall", slow.iter().copied().max().unwrap_or(0));
    v.count("c05.resumptions_over_100ms", slow.iter().filter(|us| **us >= 100_000).count() as u64);
    // losslessness: every accepted action reduced exactly once (C01 fold over the same history)
    let f = fold(h, s, v, false);
    for (a, d) in &h.disp {
        if d.ok == Some(true) && !f.reduced.contains(a) && !sh.acts.get(a).map(|x| x.vetoed()).unwrap_or(false) {
            v.fail("C05", format!("store {} (BlockOnFull): accepted action {} was never reduced (lost)", s, id_str(*a)));
        }
        // (a dispatch that returned before any shutdown call was even invoked ran on an open store)
        if d.ok == Some(false) && d.ret < sh.stops.iter().map(|r| r.inv).min().unwrap_or(INF) {
            v.fail("C05", format!("store {} (BlockOnFull): dispatch of {} was rejected while the store was open", s, id_str(*a)));
        }
    }
    v.maxc(&format!("c05.max_outstanding_cap{}", cfg.cap), max_out.max(0) as u64);
    v.maxc(&format!("c05.max_outstanding_while_parked_cap{}", cfg.cap), max_out_parked.max(0) as u64);
    v.count("c05.quiescent_points_with_full_queue", full_parked);
    v.count("c05.blocked_dispatch_resumed", blocked_then_returned);
    if blocked_then_returned > 0 && full_parked > 0 {
        v.nontrivial.insert("C05");
    } else if wins.is_empty() && max_out >= cfg.cap as i64 {
        // ungated variant: the queue was observed full
        v.nontrivial.insert("C05");
    }
}

pub fn c06(h: &Hist, w: &W, s: u8, v: &mut Verdicts) {
    let cfg = &h.cfg[s as usize];
    if cfg.policy == POL_BLOCK {
        return;
    }
    let sh = &h.st[s as usize];
    v.evaluated.insert("C06");
    if stop_timed_out(h, s) {
        v.inconcl("C06", "stop() hit its timeout".into());
        return;
    }
    if h.evs.iter().any(|e| e.k == K::Mark && e.idx == MARK_GIVEUP) {
        v.inconcl("C06", "controller gave up waiting".into());
        return;
    }
    let pol = POL_NAMES[cfg.policy as usize];
    let sr = first_stop(h, s).cloned();
    let close_inv = sr.as_ref().map(|x| x.inv).unwrap_or(INF);
    let dropped_metric = w.met.lock().unwrap().iter().rev().find(|m| m.store == s && sr.as_ref().map(|x| m.inv > x.ret).unwrap_or(false)).map(|m| m.c[1]);
    let in_t: HashSet<u32> = sh.taken.iter().copied().collect();
    // burst while parked?
    let m2 = h.evs.iter().find(|e| e.k == K::Mark && e.idx == 2).map(|e| e.seq);
    let m3 = h.evs.iter().find(|e| e.k == K::Mark && e.idx == 3).map(|e| e.seq);
    let mut burst: Vec<(u32, DispRec)> = h.disp.iter().filter(|(a, _)| id_store(**a) == s && id_producer(**a) < 50).map(|(a, d)| (*a, d.clone())).collect();
    burst.sort_by_key(|(_, d)| d.inv);
    let n = burst.len();
    let cap = cfg.cap;
    let mut discards = 0u64;
    if let (Some(b), Some(e)) = (m2, m3) {
        let all_inside = burst.iter().all(|(_, d)| d.inv > b && d.ret < e);
        // the exit marker goes through the store's own policy: if stop() was invoked before the
        // survivors had been taken, its (legitimate, counted) eviction blurs the survivor set
        let drained = h.evs.iter().any(|e| e.k == K::Mark && e.idx == 5 && e.seq < close_inv);
        if all_inside && n > 0 && !drained {
            v.count("c06.gated_bursts_not_drained_before_stop", 1);
        }
        if all_inside && n > 0 && drained {
            // exact expectations by interval reasoning (exact for a single producer)
            for (i, (a, d)) in burst.iter().enumerate() {
                let after_ret = burst.iter().filter(|(_, x)| x.inv > d.ret).count();
                let maybe_after = burst.iter().filter(|(b2, x)| *b2 != *a && x.ret > d.inv).count();
                let before_inv = burst.iter().filter(|(_, x)| x.ret < d.inv).count();
                let maybe_before = burst.iter().filter(|(b2, x)| *b2 != *a && x.inv < d.ret).count();
                let survived = in_t.contains(a);
                let (must_drop, must_survive) = if cfg.policy == POL_OLDEST { (after_ret >= cap, maybe_after < cap) } else { (before_inv >= cap, maybe_before < cap) };
                if must_drop && survived {
                    v.fail("C06", format!("store {} ({}, capacity {}): burst action {} (#{} of {}) was reduced although the policy names it for discarding (reducer parked during the whole burst)", s, pol, cap, id_str(*a), i + 1, n));
                }
                if must_survive && !survived {
                    v.fail("C06", format!("store {} ({}, capacity {}): burst action {} (#{} of {}) was discarded although the policy keeps it (reducer parked during the whole burst)", s, pol, cap, id_str(*a), i + 1, n));
                }
                if !survived {
                    discards += 1;
                }
                // per-call result
                if d.ep == EP_DISPATCHER && cfg.policy == POL_LATEST {
                    if d.ok == Some(true) && !survived {
                        v.fail("C06", format!("store {} (DropLatest): Dispatcher::dispatch of {} returned Ok but the action was discarded", s, id_str(*a)));
                    }
                    if d.ok == Some(false) && survived {
                        v.fail("C06", format!("store {} (DropLatest): Dispatcher::dispatch of {} returned Err but the action was reduced", s, id_str(*a)));
                    }
                } else if d.ok != Some(true) {
                    v.fail("C06", format!("store {} ({}): dispatch of {} through {} returned Err while the store was open", s, pol, id_str(*a), EP_NAMES[d.ep as usize]));
                }
            }
            let survivors = burst.iter().filter(|(a, _)| in_t.contains(a)).count();
            if survivors != cap.min(n) {
                v.fail("C06", format!("store {} ({}, capacity {}): after a burst of {} with the reducer parked, {} actions remained instead of {}", s, pol, cap, n, survivors, cap.min(n)));
            }
            v.count("c06.gated_bursts", 1);
        }
    }
    // every schedule: taken xor dropped, exactly once
    let open_calls: Vec<&(u32, DispRec)> = burst.iter().filter(|(_, d)| d.ret < close_inv).collect();
    let survivors = open_calls.iter().filter(|(a, _)| in_t.contains(a)).count() as u64;
    let plug = h.disp.keys().filter(|a| id_producer(**a) == 50 && in_t.contains(a)).count() as u64;
    // follow-ups the store dispatched to itself (Effect::Action of a first reducer): one per completed parent
    let issued = sh.acts.iter().filter(|(a, ar)| id_gen(**a) == 0 && ar.reduces.iter().any(|r| r.ridx == 0 && r.end != INF && matches!(h.ctx.script(r.z).eff[0], Some(e) if e.kind == EK_ACTION))).count() as u64;
    let followups_taken = sh.taken.iter().filter(|a| id_gen(**a) != 0).count() as u64;
    let settled = h.evs.iter().any(|e| e.k == K::Mark && e.idx == MARK_FOLLOWUPS && e.x == 1);
    // the probe of the close-while-parked scenario: usually made after close() returned (rejected); if it
    // overlapped close() it may have gone through the policy
    let closing = sh.stops.iter().filter(|r| r.how == STOP_CLOSE).map(|r| r.ret).min();
    let probe_raced = h.disp.iter().any(|(a, d)| id_producer(*a) == 51 && closing.map(|c| d.inv < c).unwrap_or(true));
    if probe_raced {
        v.count("c06.probe_overlapped_close", 1);
    } else if issued > 0 && !settled {
        v.inconcl("C06", "follow-up actions were still in flight when stop() was invoked".into());
    } else if let Some(dm) = dropped_metric {
        if open_calls.len() == burst.len() {
            let lost = burst.len() as u64 + issued - survivors - followups_taken;
            v.count("c06.self_dispatched_followups", issued);
            if dm != lost {
                v.fail("C06", format!("store {} ({}, capacity {}): {} actions were dispatched while open (+ {} follow-ups the store dispatched to itself), {} taken by the reducer, but action_dropped = {} (expected {})", s, pol, cap, burst.len(), issued, survivors + followups_taken, dm, lost));
            }
            discards = discards.max(lost);
            v.count("c06.conservation_checked", 1);
        }
    }
    // DropLatest through the Dispatcher interface: Err exactly for the discarded ones
    if cfg.policy == POL_LATEST {
        for (a, d) in open_calls.iter().map(|x| (&x.0, &x.1)) {
            if d.ep == EP_DISPATCHER {
                let survived = in_t.contains(a);
                if (d.ok == Some(true)) != survived {
                    v.fail("C06", format!("store {} (DropLatest): Dispatcher::dispatch of {} returned {} but the action was {}", s, id_str(*a), if d.ok == Some(true) { "Ok" } else { "Err" }, if survived { "reduced" } else { "discarded" }));
                }
            }
        }
    }
    // a taken action is taken exactly once
    let f = fold(h, s, v, false);
    let _ = f;
    for (a, ar) in &sh.acts {
        if ar.reduces.iter().filter(|r| r.ridx == 0).count() > 1 {
            v.fail("C06", format!("store {}: action {} was reduced more than once", s, id_str(*a)));
        }
    }
    let _ = plug;
    v.count("c06.discards_seen", discards);
    let full = m2.is_some() && discards > 0;
    if discards > 0 && (full || cfg.cap <= 2) {
        v.nontrivial.insert("C06");
    }
}

pub fn run(seed: u64, tiny: bool, focus: &str) -> Outcome {
    let mut rng = Rng::new(seed);
    let c = gen(&mut rng, tiny, focus);
    let w = execute(&c, seed);
    let h = Hist::from_world(&w);
    let mut v = Verdicts::default();
    c05(&h, 0, &mut v);
    c06(&h, &w, 0, &mut v);
    c02(&h, 0, &mut v);
    crate::oracle_m::c18(&h, &w, 0, &mut v);
    Outcome::new(describe(&c), h, v)
}
