//! rsv: runtime-monitoring harness for rs-store. See /verif/DESIGN.md.

mod core;
mod fam_a;
mod fam_b;
mod fam_c;
mod fam_d;
mod fam_e;
mod fam_f;
mod fam_g;
mod fam_h;
mod fam_i;
mod fam_k;
mod fam_t;
mod hist;
mod json;
mod oracle_a;
mod oracle_m;
mod script;
mod watchdog;
mod world;

use crate::core::*;
use crate::hist::*;
use crate::json::J;
use std::collections::{BTreeMap, HashSet};

pub struct Outcome {
    pub desc: J,
    pub h: Option<Hist>,
    pub v: Verdicts,
    /// families that enumerate a finite space use the enumeration index as identity
    pub fp_override: Option<u64>,
}

impl Outcome {
    pub fn new(desc: J, h: Hist, v: Verdicts) -> Outcome {
        Outcome { desc, h: Some(h), v, fp_override: None }
    }
}

#[derive(Default)]
struct PropAgg {
    evals: u64,
    nontrivial: u64,
    fps: HashSet<u64>,
    samples: Vec<J>,
    violations: Vec<J>,
    inconclusive: u64,
    known_more: u64,
}

fn family_props(f: &str) -> &'static [&'static str] {
    match f {
        "A" => &["C01", "C02", "C03", "C07", "C08", "C18"],
        "B" => &["C04", "C15", "C01", "C02", "C18", "C14", "C05", "C13"],
        "C" => &["C05", "C06", "C02", "C18"],
        "D" => &["C09", "C10", "C14", "C16", "C03", "C07", "C04"],
        "E" => &["C11", "C01", "C18"],
        "F" => &["C12"],
        "G" => &["C13"],
        "W" => &["C09", "C11", "C13", "C14"],
        "H" => &["C17"],
        "I" => &["C16"],
        "K" => &["C19", "C16", "C04"],
        "T" => &["C11"],
        _ => &[],
    }
}

fn run_one(family: &str, seed: u64, tiny: bool, focus: &str, base_seed: u64, index: u64, thorough: bool) -> Outcome {
    match family {
        "A" => fam_a::run(seed, tiny, focus),
        "B" => fam_b::run(seed, tiny, focus),
        "C" => fam_c::run(seed, tiny, focus),
        "D" => fam_d::run(seed, tiny, focus),
        "E" => fam_e::run(seed, tiny, focus),
        "F" => fam_f::run(base_seed, index, tiny),
        "G" => fam_g::run(seed, tiny, thorough),
        "W" => fam_g::run_witness(seed, index),
        "H" => fam_h::run(base_seed, index, tiny, thorough),
        "I" => fam_i::run(index, tiny),
        "K" => fam_k::run(seed, tiny, focus),
        "T" => fam_t::run(seed, tiny, focus),
        _ => panic!("unknown family {}", family),
    }
}

fn main() {
    let args: Vec<String> = std::env::args().collect();
    if args.len() == 5 && args[1] == "Kprobe" {
        watchdog::install_panic_hook();
        fam_k::pool_probe_child(args[2].parse().unwrap(), args[3].parse().unwrap(), args[4] == "1");
        return;
    }
    if args.len() < 8 {
        eprintln!("usage: rsv <family> <seed> <start> <count> <tiny|normal> <focus-prop> <outdir> [budget_ms]");
        std::process::exit(2);
    }
    let family = args[1].clone();
    let seed: u64 = args[2].parse().unwrap();
    let start: u64 = args[3].parse().unwrap();
    let count: u64 = args[4].parse().unwrap();
    let tiny = args[5] == "tiny";
    let thorough = args[5] == "thorough";
    let focus = args[6].clone();
    let outdir = args[7].clone();
    let budget_ms: u64 = args.get(8).and_then(|x| x.parse().ok()).unwrap_or(u64::MAX);
    watchdog::install_panic_hook();

    let t0 = std::time::Instant::now();
    let mut agg: BTreeMap<&'static str, PropAgg> = BTreeMap::new();
    let mut counters: BTreeMap<String, u64> = BTreeMap::new();
    let mut events = 0u64;
    let mut done = 0u64;
    let mut next = start;
    let mut stuck_json: Option<J> = None;
    let mut known_written: std::collections::HashMap<(&'static str, &'static str), u32> = std::collections::HashMap::new();
    for i in start..start + count {
        if t0.elapsed().as_millis() as u64 > budget_ms {
            break;
        }
        next = i + 1;
        let sseed = mix(mix(seed, family.bytes().fold(7u64, |a, b| a * 131 + b as u64)), i);
        let fam = family.clone();
        let foc = focus.clone();
        let res = watchdog::supervise(move || run_one(&fam, sseed, tiny, &foc, seed, i, thorough));
        let out = match res {
            Ok(o) => o,
            Err(stuck) => {
                stuck_json = Some(J::obj(vec![("index", J::U(i)), ("seed", J::U(sseed)), ("report", stuck)]));
                break;
            }
        };
        done += 1;
        let fp = out.fp_override.unwrap_or_else(|| out.h.as_ref().map(|h| h.fingerprint()).unwrap_or(sseed));
        events += out.h.as_ref().map(|h| h.evs.len() as u64).unwrap_or(0);
        for (k, n) in &out.v.counters {
            let e = counters.entry(k.clone()).or_insert(0);
            if k.contains(".max_") {
                *e = (*e).max(*n);
            } else {
                *e += *n;
            }
        }
        for p in out.v.evaluated.iter() {
            let a = agg.entry(p).or_default();
            if out.v.has_inconcl(p) {
                a.inconclusive += 1;
                continue;
            }
            a.evals += 1;
            if out.v.nontrivial.contains(p) && a.fps.insert(fp) {
                a.nontrivial += 1;
                if a.samples.len() < 2 {
                    let mut kv = vec![("scenario", out.desc.clone()), ("seed", J::U(sseed)), ("index", J::U(i))];
                    if let Some(h) = &out.h {
                        kv.push(("events", J::U(h.evs.len() as u64)));
                        kv.push(("trace_excerpt", h.log_json(40)));
                    }
                    a.samples.push(J::obj(kv));
                }
            }
        }
        // violations: one witness per (prop) per scenario
        let mut seen: HashSet<(&str, Option<&str>)> = HashSet::new();
        for f in &out.v.findings {
            if !seen.insert((f.prop, f.known)) {
                continue;
            }
            if f.known.is_some() {
                // known findings: keep a few witnesses per process, count the rest
                let n = known_written.entry((f.prop, f.known.unwrap())).or_insert(0u32);
                *n += 1;
                if *n > 2 {
                    agg.entry(f.prop).or_default().known_more += 1;
                    continue;
                }
            }
            let msgs: Vec<J> = out.v.findings.iter().filter(|g| g.prop == f.prop && g.known == f.known).take(8).map(|g| J::s(g.msg.clone())).collect();
            let path = format!("{}/{}-{}-{}-{}{}.json", outdir, f.prop, family, seed, i, if f.known.is_some() { "-known" } else { "" });
            let mut kv = vec![
                ("property", J::s(f.prop)),
                ("family", J::s(family.clone())),
                ("seed", J::U(seed)),
                ("index", J::U(i)),
                ("size", J::s(if tiny { "tiny" } else { "normal" })),
                ("focus", J::s(focus.clone())),
                ("engine", J::s(if cfg!(miri) { "miri" } else { "native" })),
                ("messages", J::A(msgs)),
                ("known", f.known.map(J::s).unwrap_or(J::Null)),
                ("scenario", out.desc.clone()),
            ];
            if let Some(h) = &out.h {
                kv.push(("threads", h.threads_json()));
                kv.push(("log", h.log_json(1200)));
            }
            if outdir == "-" {
                println!("WITNESS {} {}", path, J::obj(kv).to_string());
            } else {
                let _ = std::fs::create_dir_all(&outdir);
                let _ = std::fs::write(&path, J::obj(kv).to_string());
            }
            agg.entry(f.prop).or_default().violations.push(J::obj(vec![
                ("msg", J::s(f.msg.clone())),
                ("known", f.known.map(J::s).unwrap_or(J::Null)),
                ("witness", J::s(path)),
                ("index", J::U(i)),
            ]));
        }
    }
    let mut props = Vec::new();
    for p in family_props(&family) {
        agg.entry(p).or_default();
    }
    for (p, a) in agg.iter() {
        let mut fps: Vec<u64> = a.fps.iter().copied().collect();
        fps.sort();
        fps.truncate(4000);
        props.push((
            p.to_string(),
            J::obj(vec![
                ("evals", J::U(a.evals)),
                ("nontrivial", J::U(a.nontrivial)),
                ("inconclusive", J::U(a.inconclusive)),
                ("fps", J::A(fps.into_iter().map(|x| J::s(format!("{:x}", x))).collect())),
                ("samples", J::A(a.samples.clone())),
                ("violations", J::A(a.violations.clone())),
                ("known_more", J::U(a.known_more)),
            ]),
        ));
    }
    let res = J::obj(vec![
        ("family", J::s(family)),
        ("seed", J::U(seed)),
        ("start", J::U(start)),
        ("next", J::U(next)),
        ("scenarios", J::U(done)),
        ("events", J::U(events)),
        ("engine", J::s(if cfg!(miri) { "miri" } else { "native" })),
        ("wall_ms", J::U(t0.elapsed().as_millis() as u64)),
        ("counters", J::from_map(&counters)),
        ("props", J::O(props)),
        ("stuck", stuck_json.unwrap_or(J::Null)),
    ]);
    println!("RESULT {}", res.to_string());
    // leaked/blocked threads of a stuck scenario must not keep the process alive
    std::process::exit(0);
}
