//! A scenario's world: stores built from StoreCfg with scripted components, plus client-side
//! operations that record `inv`/`ret` events at the API boundary.

use crate::core::*;
use crate::script::*;
use rs_store::*;
use std::sync::atomic::Ordering;
use std::sync::{Arc, Mutex};
use std::time::Instant;

pub const POL_BLOCK: u8 = 0;
pub const POL_OLDEST: u8 = 1;
pub const POL_LATEST: u8 = 2;
pub const POL_NAMES: [&str; 3] = ["BlockOnFull", "DropOldest", "DropLatest"];

pub fn policy(p: u8) -> BackpressurePolicy {
    match p {
        POL_BLOCK => BackpressurePolicy::BlockOnFull,
        POL_OLDEST => BackpressurePolicy::DropOldest,
        _ => BackpressurePolicy::DropLatest,
    }
}

#[derive(Clone, Debug)]
pub struct StoreCfg {
    pub policy: u8,
    pub cap: usize,
    pub n_red: u32,
    pub n_mw: u32,
    pub name: String,
    /// 0: StoreBuilder; 1: StoreImpl::new_with_name / new_with_reducer (+ add_reducer/add_middleware);
    /// 2: StoreImpl::new (+ add_reducer/add_middleware). 1 and 2 only with default capacity and policy.
    pub ctor: u8,
}

pub const SK_DIRECT: u8 = 0;
pub const SK_CHANNELED: u8 = 1;
pub const SK_SELECTOR: u8 = 2;
pub const SK_ITER: u8 = 3;

#[derive(Clone, Debug)]
pub struct SubInfo {
    pub id: u32,
    pub store: u8,
    pub kind: u8,
    pub cap: usize,
    pub policy: u8,
    /// id of the direct twin registered right after this one (channeled / selector / iterator)
    pub twin: Option<u32>,
    /// registered before the first dispatch by the scenario
    pub at_build: bool,
    pub shared: bool,
}

pub struct W {
    pub ctx: Arc<Ctx>,
    pub cfg: Vec<StoreCfg>,
    pub stores: Vec<Arc<RStore>>,
    pub subs: Mutex<Vec<SubInfo>>,
    /// number of reducers / middlewares registered so far per store (build time + run time)
    pub n_red: Vec<Mutex<u32>>,
    pub n_mw: Vec<Mutex<u32>>,
    pub met: Mutex<Vec<MetSample>>,
}

#[derive(Clone, Debug)]
pub struct MetSample {
    pub store: u8,
    pub tid: u32,
    pub inv: u64,
    pub ret: u64,
    /// received, dropped, reduced, effect_issued, middleware_executed, state_notified,
    /// subscriber_notified, error_occurred
    pub c: [u64; 8],
}
pub const MET_NAMES: [&str; 8] = ["action_received", "action_dropped", "action_reduced", "effect_issued", "middleware_executed", "state_notified", "subscriber_notified", "error_occurred"];

pub const REG_REDUCER: u8 = 0;
pub const REG_MW: u8 = 1;
pub const REG_SUB: u8 = 2;

pub const STOP_STOP: u32 = 0;
pub const STOP_CLOSE: u32 = 1;
pub const STOP_DROP: u32 = 2;
pub const STOP_TRAIT: u32 = 3;

struct Out<'a>(&'a Log);
impl<'a> Out<'a> {
    fn new(l: &'a Log) -> Out<'a> {
        l.outstanding.fetch_add(1, Ordering::Relaxed);
        OUTSTANDING.fetch_add(1, Ordering::Relaxed);
        Out(l)
    }
}
impl Drop for Out<'_> {
    fn drop(&mut self) {
        self.0.outstanding.fetch_sub(1, Ordering::Relaxed);
        OUTSTANDING.fetch_sub(1, Ordering::Relaxed);
    }
}

pub fn build_store(ctx: &Arc<Ctx>, s: u8, cfg: &StoreCfg) -> Result<Arc<RStore>, StoreError> {
    if cfg.ctor != 0 && cfg.cap == DEFAULT_CAPACITY && cfg.policy == POL_BLOCK {
        // the convenience constructors: defaults for capacity and policy, components added afterwards
        let red = |i: u32| -> Box<dyn Reducer<St, Act> + Send + Sync> { Box::new(ScriptedReducer { ctx: ctx.clone(), store: s, idx: i }) };
        let st = if cfg.ctor == 1 && cfg.n_red >= 1 {
            if cfg.name == DEFAULT_STORE_NAME {
                StoreImpl::new_with_reducer(St::initial(s), red(0))
            } else {
                StoreImpl::new_with_name(St::initial(s), red(0), cfg.name.clone())?
            }
        } else {
            StoreImpl::new(St::initial(s))
        };
        let first = if cfg.ctor == 1 && cfg.n_red >= 1 { 1 } else { 0 };
        for i in first..cfg.n_red {
            StoreImpl::add_reducer(&st, red(i));
        }
        for i in 0..cfg.n_mw {
            StoreImpl::add_middleware(&st, Arc::new(ScriptedMw { ctx: ctx.clone(), store: s, idx: i }));
        }
        return Ok(st);
    }
    let mut b = StoreBuilder::new(St::initial(s))
        .with_name(cfg.name.clone())
        .with_capacity(cfg.cap)
        .with_policy(policy(cfg.policy));
    if cfg.n_red == 0 {
        b = b.without_reducer();
    }
    for i in 0..cfg.n_red {
        b = b.add_reducer(Box::new(ScriptedReducer { ctx: ctx.clone(), store: s, idx: i }));
    }
    for i in 0..cfg.n_mw {
        b = b.add_middleware(Arc::new(ScriptedMw { ctx: ctx.clone(), store: s, idx: i }));
    }
    b.build()
}

impl W {
    pub fn new(ctx: Arc<Ctx>, cfgs: Vec<StoreCfg>) -> W {
        let mut stores = Vec::new();
        for (s, cfg) in cfgs.iter().enumerate() {
            let st = build_store(&ctx, s as u8, cfg).expect("scenario store must build");
            ctx.stores.lock().unwrap().push(Arc::downgrade(&st));
            stores.push(st);
        }
        W {
            n_red: cfgs.iter().map(|c| Mutex::new(c.n_red)).collect(),
            n_mw: cfgs.iter().map(|c| Mutex::new(c.n_mw)).collect(),
            ctx,
            cfg: cfgs,
            stores,
            subs: Mutex::new(Vec::new()),
            met: Mutex::new(Vec::new()),
        }
    }

    pub fn metrics(&self, s: u8) -> [u64; 8] {
        let _o = Out::new(self.log());
        let inv = self.ctx.ev(K::MetInv, s, 0, 0, 0, 0, 0);
        let m = StoreImpl::get_metrics(&self.stores[s as usize]);
        let c = [
            m.action_received as u64,
            m.action_dropped as u64,
            m.action_reduced as u64,
            m.effect_issued as u64,
            m.middleware_executed as u64,
            m.state_notified as u64,
            m.subscriber_notified as u64,
            m.error_occurred as u64,
        ];
        let ret = self.ctx.ev(K::MetRet, s, 0, 0, c[0], c[1], 0);
        self.met.lock().unwrap().push(MetSample { store: s, tid: self.log().tid(), inv, ret, c });
        c
    }

    /// wrap a store that was built elsewhere (builder enumeration)
    pub fn from_store(ctx: Arc<Ctx>, cfg: StoreCfg, st: Arc<RStore>) -> W {
        ctx.stores.lock().unwrap().push(Arc::downgrade(&st));
        W { n_red: vec![Mutex::new(cfg.n_red)], n_mw: vec![Mutex::new(cfg.n_mw)], ctx, cfg: vec![cfg], stores: vec![st], subs: Mutex::new(Vec::new()), met: Mutex::new(Vec::new()) }
    }

    pub fn log(&self) -> &Log {
        &self.ctx.log
    }

    // -------------------------------------------------------------------------------------
    // dispatch through every entry point

    pub fn dispatch(&self, s: u8, ep: u32, act: Act) -> bool {
        dispatch_on(&self.ctx, &self.stores[s as usize], s, ep, act)
    }

    pub fn read(&self, s: u8) -> St {
        let _o = Out::new(self.log());
        read_state(self.log(), &self.stores[s as usize], s, 0)
    }

    /// stop()/close()/Store::stop with inv/ret; y of the ret event = elapsed milliseconds
    pub fn stop(&self, s: u8, how: u32) -> u64 {
        let _o = Out::new(self.log());
        let st = &self.stores[s as usize];
        self.ctx.ev(K::StopInv, s, 0, how, 0, 0, 0);
        let t0 = Instant::now();
        match how {
            STOP_CLOSE => StoreImpl::close(st),
            STOP_TRAIT => <RStore as rs_store::Store<St, Act>>::stop(st),
            _ => StoreImpl::stop(st),
        }
        let ms = t0.elapsed().as_millis() as u64;
        self.ctx.ev(K::StopRet, s, 0, how, 0, ms, 0);
        ms
    }

    pub fn drop_droppable(&self, s: u8, d: DroppableStore<St, Act>) -> u64 {
        let _o = Out::new(self.log());
        self.ctx.ev(K::StopInv, s, 0, STOP_DROP, 0, 0, 0);
        let t0 = Instant::now();
        drop(d);
        let ms = t0.elapsed().as_millis() as u64;
        self.ctx.ev(K::StopRet, s, 0, STOP_DROP, 0, ms, 0);
        ms
    }

    // -------------------------------------------------------------------------------------
    // registration

    fn new_sub_info(&self, s: u8, kind: u8, cap: usize, pol: u8, at_build: bool, shared: bool) -> u32 {
        let mut subs = self.subs.lock().unwrap();
        let id = subs.len() as u32;
        subs.push(SubInfo { id, store: s, kind, cap, policy: pol, twin: None, at_build, shared });
        id
    }
    pub fn set_twin(&self, id: u32, twin: u32) {
        self.subs.lock().unwrap()[id as usize].twin = Some(twin);
    }

    pub fn mk_sub(&self, s: u8, id: u32, gate: u8, gate_all: bool, read_wh: u32) -> ScriptedSub {
        ScriptedSub { ctx: self.ctx.clone(), store: s, id, gate, gate_all, read_wh, counter: None, unsub_counter: None, hook: None, unsub_gate: NOGATE, panic_on_unsub: std::sync::atomic::AtomicBool::new(false) }
    }

    /// add_subscriber with a fresh scripted direct subscriber
    pub fn add_direct(&self, s: u8, gate: u8, gate_all: bool, at_build: bool, via_trait: bool) -> (u32, Box<dyn Subscription>) {
        let id = self.new_sub_info(s, SK_DIRECT, 0, 0, at_build, false);
        let read_wh = if self.ctx.read_in_cb { 1 } else { 0 };
        let sub: Arc<dyn Subscriber<St, Act> + Send + Sync> = Arc::new(self.mk_sub(s, id, gate, gate_all, read_wh));
        (id, self.add_sub_arc(s, id, sub, via_trait))
    }

    pub fn add_sub_arc(&self, s: u8, id: u32, sub: Arc<dyn Subscriber<St, Act> + Send + Sync>, via_trait: bool) -> Box<dyn Subscription> {
        let _o = Out::new(self.log());
        let st = &self.stores[s as usize];
        self.ctx.ev(K::AddInv, s, 0, id, 0, 0, REG_SUB);
        let sn = if via_trait {
            <RStore as rs_store::Store<St, Act>>::add_subscriber(st, sub)
        } else {
            StoreImpl::add_subscriber(st, sub)
        };
        self.ctx.ev(K::AddRet, s, 0, id, 0, 0, REG_SUB);
        sn
    }

    /// direct subscriber that bumps `counter` after every notification
    pub fn add_direct_counted(&self, s: u8, at_build: bool, counter: Arc<Counter>) -> (u32, Box<dyn Subscription>) {
        let id = self.new_sub_info(s, SK_DIRECT, 0, 0, at_build, false);
        let mut sub = self.mk_sub(s, id, NOGATE, false, 0);
        sub.counter = Some(counter);
        let sub: Arc<dyn Subscriber<St, Act> + Send + Sync> = Arc::new(sub);
        (id, self.add_sub_arc(s, id, sub, false))
    }

    /// a shared subscriber object registered on several stores (C19)
    pub fn new_shared_sub(&self) -> (u32, Arc<ScriptedSub>) {
        let id = self.new_sub_info(255, SK_DIRECT, 0, 0, true, true);
        (id, Arc::new(self.mk_sub(255, id, NOGATE, false, 0)))
    }

    pub fn add_channeled(&self, s: u8, cap: usize, pol: u8, gate: u8, gate_all: bool, at_build: bool, default_api: bool) -> (u32, Box<dyn Subscription>) {
        let id = self.new_sub_info(s, SK_CHANNELED, cap, pol, at_build, false);
        let read_wh = if self.ctx.read_in_cb { 3 } else { 0 };
        let sub = Box::new(self.mk_sub(s, id, gate, gate_all, read_wh));
        let _o = Out::new(self.log());
        let st = &self.stores[s as usize];
        self.ctx.ev(K::AddInv, s, 0, id, 0, 0, REG_SUB);
        let via_trait = id % 3 == 1;
        let sn = match (default_api, via_trait) {
            (true, false) => StoreImpl::subscribed(st, sub),
            (true, true) => <RStore as rs_store::Store<St, Act>>::subscribed(st, sub),
            (false, false) => StoreImpl::subscribed_with(st, cap, policy(pol), sub),
            (false, true) => <RStore as rs_store::Store<St, Act>>::subscribed_with(st, cap, policy(pol), sub),
        }
        .expect("subscribed_with failed");
        self.ctx.ev(K::AddRet, s, 0, id, 0, 0, REG_SUB);
        (id, sn)
    }

    /// channeled subscriber built from a prepared ScriptedSub (hooks, gates)
    pub fn add_channeled_sub(&self, s: u8, cap: usize, pol: u8, at_build: bool, prep: impl FnOnce(&mut ScriptedSub)) -> (u32, Box<dyn Subscription>) {
        let id = self.new_sub_info(s, SK_CHANNELED, cap, pol, at_build, false);
        let mut sub = self.mk_sub(s, id, NOGATE, false, 0);
        prep(&mut sub);
        let _o = Out::new(self.log());
        let st = &self.stores[s as usize];
        self.ctx.ev(K::AddInv, s, 0, id, SK_CHANNELED as u64, 0, REG_SUB);
        let sn = StoreImpl::subscribed_with(st, cap, policy(pol), Box::new(sub)).expect("subscribed_with failed");
        self.ctx.ev(K::AddRet, s, 0, id, SK_CHANNELED as u64, 0, REG_SUB);
        (id, sn)
    }

    /// direct subscriber built from a prepared ScriptedSub
    pub fn add_direct_sub(&self, s: u8, at_build: bool, prep: impl FnOnce(&mut ScriptedSub)) -> (u32, Box<dyn Subscription>) {
        let id = self.new_sub_info(s, SK_DIRECT, 0, 0, at_build, false);
        let mut sub = self.mk_sub(s, id, NOGATE, false, 0);
        prep(&mut sub);
        (id, self.add_sub_arc(s, id, Arc::new(sub), false))
    }

    pub fn add_selector(&self, s: u8, at_build: bool) -> (u32, Box<dyn Subscription>) {
        let id = self.new_sub_info(s, SK_SELECTOR, 0, 0, at_build, false);
        let _o = Out::new(self.log());
        let st = &self.stores[s as usize];
        let c = self.ctx.clone();
        self.ctx.ev(K::AddInv, s, 0, id, 0, 0, REG_SUB);
        let sn = StoreImpl::subscribe_with_selector(st, SelSelector, move |v: u8, a: Act| {
            c.ev(K::SelCb, s, a.id, id, v as u64, 0, 0);
        });
        self.ctx.ev(K::AddRet, s, 0, id, 0, 0, REG_SUB);
        (id, sn)
    }

    pub fn add_iter(&self, s: u8, at_build: bool) -> (u32, Box<dyn Iterator<Item = (St, Act)> + Send>) {
        let id = self.new_sub_info(s, SK_ITER, 1, 0, at_build, false);
        let _o = Out::new(self.log());
        let st = &self.stores[s as usize];
        self.ctx.ev(K::AddInv, s, 0, id, SK_ITER as u64, 0, REG_SUB);
        let it = iter_boxed(st);
        self.ctx.ev(K::AddRet, s, 0, id, SK_ITER as u64, 0, REG_SUB);
        (id, it)
    }

    pub fn unsubscribe(&self, s: u8, id: u32, sn: &dyn Subscription) {
        let _o = Out::new(self.log());
        self.ctx.ev(K::UInv, s, 0, id, 0, 0, 0);
        sn.unsubscribe();
        self.ctx.ev(K::URet, s, 0, id, 0, 0, 0);
    }

    pub fn add_reducer(&self, s: u8) -> u32 {
        let _o = Out::new(self.log());
        let mut n = self.n_red[s as usize].lock().unwrap();
        let idx = *n;
        self.ctx.ev(K::AddInv, s, 0, idx, 0, 0, REG_REDUCER);
        StoreImpl::add_reducer(&self.stores[s as usize], Box::new(ScriptedReducer { ctx: self.ctx.clone(), store: s, idx }));
        self.ctx.ev(K::AddRet, s, 0, idx, 0, 0, REG_REDUCER);
        *n += 1;
        idx
    }

    pub fn add_middleware(&self, s: u8) -> u32 {
        let _o = Out::new(self.log());
        let mut n = self.n_mw[s as usize].lock().unwrap();
        let idx = *n;
        self.ctx.ev(K::AddInv, s, 0, idx, 0, 0, REG_MW);
        StoreImpl::add_middleware(&self.stores[s as usize], Arc::new(ScriptedMw { ctx: self.ctx.clone(), store: s, idx }));
        self.ctx.ev(K::AddRet, s, 0, idx, 0, 0, REG_MW);
        *n += 1;
        idx
    }

    pub fn mark(&self, code: u32, x: u64) -> u64 {
        self.ctx.ev(K::Mark, 0, 0, code, x, 0, 0)
    }
}

// `iter()` returns an opaque `impl Iterator` whose hidden type is not nameable and is not
// promised to be Send by the signature; auto-trait leakage makes it Send in practice.
pub fn iter_boxed(st: &Arc<RStore>) -> Box<dyn Iterator<Item = (St, Act)> + Send> {
    Box::new(StoreImpl::iter(st))
}

pub fn dispatch_on(ctx: &Arc<Ctx>, st: &Arc<RStore>, s: u8, ep: u32, act: Act) -> bool {
    let log = &ctx.log;
    let _o = Out::new(log);
    match ep {
        EP_THUNK => {
            // the inv/ret of the actual dispatch are recorded inside the thunk; the submit call itself
            // is recorded as TInv/TRet
            let c = ctx.clone();
            let id = act.id;
            let z = act.script;
            log.ev(K::TInv, s, id, 0, 0, 0, 0);
            Dispatcher::dispatch_thunk(
                st,
                Box::new(move |d: Box<dyn Dispatcher<Act>>| {
                    c.ev(K::EBeg, s, id, 0xff, 0, 0, 0);
                    c.evz(K::DInv, s, id, EP_THUNK, 0, 0, 0, z);
                    let r = d.dispatch(act);
                    c.ev(K::DRet, s, id, EP_THUNK, 0, 0, r.is_err() as u8);
                    c.ev(K::EEnd, s, id, 0xff, 0, 0, 0);
                }),
            );
            log.ev(K::TRet, s, id, 0, 0, 0, 0);
            true
        }
        _ => {
            let id = act.id;
            log.evz(K::DInv, s, id, ep, 0, 0, 0, act.script);
            let r = match ep {
                EP_INHERENT => StoreImpl::dispatch(st, act).is_err(),
                EP_STORE_TRAIT => <RStore as rs_store::Store<St, Act>>::dispatch(st, act).is_err(),
                _ => Dispatcher::dispatch(st, act).is_err(),
            };
            log.ev(K::DRet, s, id, ep, 0, 0, r as u8);
            !r
        }
    }
}
