//! History = merged event log + scenario metadata, with the indexes the oracles share.

use crate::core::*;
use crate::json::J;
use crate::script::*;
use crate::world::*;
use std::collections::{BTreeMap, BTreeSet, HashMap};
use std::sync::Arc;

#[derive(Clone, Debug)]
pub struct DispRec {
    pub z: u32,
    pub inv: u64,
    pub ret: u64,
    pub ok: Option<bool>,
    pub ep: u32,
    pub tid: u32,
}

#[derive(Clone, Debug)]
pub struct RedRec {
    pub ridx: u32,
    pub z: u32,
    pub xin: u64,
    pub steps_in: u64,
    pub xout: u64,
    pub keep: bool,
    pub beg: u64,
    pub end: u64,
    pub valid_in: bool,
    pub tid: u32,
}

#[derive(Clone, Debug)]
pub struct MwRec {
    pub midx: u32,
    pub hook: u32,
    pub verdict: u8,
    pub x: u64,
    pub y: u64,
    pub beg: u64,
    pub end: u64,
    pub tid: u32,
    pub errs: u32,
}

#[derive(Clone, Debug)]
pub struct NotRec {
    pub sub: u32,
    pub z: u32,
    pub x: u64,
    pub steps: u64,
    pub beg: u64,
    pub end: u64,
    pub tid: u32,
    pub valid: bool,
}

#[derive(Clone, Debug, Default)]
pub struct ActRec {
    pub first: u64,
    pub reduces: Vec<RedRec>,
    pub mws: Vec<MwRec>,
    /// notifications of direct-kind subscribers (reducer context)
    pub nots: Vec<NotRec>,
}

impl ActRec {
    pub fn vetoed(&self) -> bool {
        self.mws.iter().any(|m| m.hook == 0 && m.verdict == V_DONE)
    }
    /// Some(true) notify, Some(false) keep, None mixed/unknown
    pub fn notifying(&self) -> Option<bool> {
        if self.reduces.is_empty() {
            return None;
        }
        let k = self.reduces[0].keep;
        if self.reduces.iter().all(|r| r.keep == k) {
            Some(!k)
        } else {
            None
        }
    }
    pub fn bd_done(&self) -> bool {
        self.mws.iter().any(|m| m.hook == 2 && m.verdict == V_DONE)
    }
    pub fn post(&self) -> Option<u64> {
        self.reduces.last().map(|r| r.xout)
    }
    pub fn last_rc_end(&self) -> u64 {
        let mut m = self.first;
        for r in &self.reduces {
            m = m.max(r.end);
        }
        for r in &self.mws {
            m = m.max(r.end);
        }
        for r in &self.nots {
            m = m.max(r.end);
        }
        m
    }
}

#[derive(Clone, Debug)]
pub struct StopRec {
    pub inv: u64,
    pub ret: u64,
    pub how: u32,
    pub ms: u64,
    pub tid: u32,
}

pub struct StoreHist {
    /// indexes into evs of reducer-context events of this store
    pub rc: Vec<usize>,
    /// taken order
    pub taken: Vec<u32>,
    pub acts: HashMap<u32, ActRec>,
    pub stops: Vec<StopRec>,
    pub rc_tids: BTreeSet<u32>,
}

pub struct Hist {
    pub evs: Vec<Ev>,
    pub names: Vec<String>,
    pub ctx: Arc<Ctx>,
    pub cfg: Vec<StoreCfg>,
    pub subs: Vec<SubInfo>,
    pub disp: HashMap<u32, DispRec>,
    pub st: Vec<StoreHist>,
    pub n_red_final: Vec<u32>,
    pub n_mw_final: Vec<u32>,
}

pub const INF: u64 = u64::MAX;

impl Hist {
    pub fn from_world(w: &W) -> Hist {
        let (evs, names) = w.ctx.log.merged();
        let subs = w.subs.lock().unwrap().clone();
        let n_red_final = w.n_red.iter().map(|m| *m.lock().unwrap()).collect();
        let n_mw_final = w.n_mw.iter().map(|m| *m.lock().unwrap()).collect();
        Hist::build(evs, names, w.ctx.clone(), w.cfg.clone(), subs, n_red_final, n_mw_final)
    }

    pub fn build(evs: Vec<Ev>, names: Vec<String>, ctx: Arc<Ctx>, cfg: Vec<StoreCfg>, subs: Vec<SubInfo>, n_red_final: Vec<u32>, n_mw_final: Vec<u32>) -> Hist {
        let mut disp: HashMap<u32, DispRec> = HashMap::new();
        let mut st: Vec<StoreHist> = cfg
            .iter()
            .map(|_| StoreHist { rc: vec![], taken: vec![], acts: HashMap::new(), stops: vec![], rc_tids: BTreeSet::new() })
            .collect();
        let is_direct = |id: u32| subs.get(id as usize).map(|s| s.kind != SK_CHANNELED || false).unwrap_or(true);
        // channeled inner subscribers run on their own thread: SBeg of kind SK_CHANNELED is not
        // reducer context
        for (i, e) in evs.iter().enumerate() {
            let s = e.store as usize;
            match e.k {
                K::DInv => {
                    disp.entry(e.a).or_insert(DispRec { z: e.z, inv: e.seq, ret: INF, ok: None, ep: e.idx, tid: e.tid });
                }
                K::DRet => {
                    if let Some(d) = disp.get_mut(&e.a) {
                        d.ret = e.seq;
                        d.ok = Some(e.r == 0);
                    }
                }
                K::StopInv => st[s].stops.push(StopRec { inv: e.seq, ret: INF, how: e.idx, ms: 0, tid: e.tid }),
                K::StopRet => {
                    // a drop during unwinding is invoked on the owner thread and observed (join) on another
                    let pos = st[s].stops.iter().rposition(|r| r.tid == e.tid && r.ret == INF).or_else(|| st[s].stops.iter().rposition(|r| r.how == e.idx && r.ret == INF));
                    if let Some(i) = pos {
                        st[s].stops[i].ret = e.seq;
                        st[s].stops[i].ms = e.y;
                    }
                }
                K::RBeg | K::REnd | K::MBeg | K::MEnd | K::MErr | K::SelCb => {
                    if s < st.len() {
                        st[s].rc.push(i);
                    }
                }
                K::SBeg | K::SEnd => {
                    if s < st.len() && is_direct(e.idx) {
                        st[s].rc.push(i);
                    }
                }
                _ => {}
            }
        }
        for sh in st.iter_mut() {
            for &i in &sh.rc {
                let e = &evs[i];
                if e.k == K::MErr || e.k == K::SelCb {
                    if e.k == K::MErr {
                        if let Some(ar) = sh.acts.get_mut(&e.a) {
                            if let Some(m) = ar.mws.iter_mut().rev().find(|m| m.midx == e.idx / 4 && m.hook == e.idx % 4) {
                                m.errs += 1;
                            }
                        }
                    }
                    continue;
                }
                sh.rc_tids.insert(e.tid);
                if !sh.acts.contains_key(&e.a) {
                    sh.taken.push(e.a);
                    sh.acts.insert(e.a, ActRec { first: e.seq, ..Default::default() });
                }
                let ar = sh.acts.get_mut(&e.a).unwrap();
                match e.k {
                    K::RBeg => ar.reduces.push(RedRec { ridx: e.idx, z: e.z, xin: e.x, steps_in: e.y, xout: 0, keep: false, beg: e.seq, end: INF, valid_in: e.r == 1, tid: e.tid }),
                    K::REnd => {
                        if let Some(r) = ar.reduces.iter_mut().rev().find(|r| r.ridx == e.idx && r.end == INF) {
                            r.xout = e.x;
                            r.keep = e.r == 1;
                            r.end = e.seq;
                        }
                    }
                    K::MBeg => ar.mws.push(MwRec { midx: e.idx / 4, hook: e.idx % 4, verdict: 255, x: e.x, y: e.y, beg: e.seq, end: INF, tid: e.tid, errs: 0 }),
                    K::MEnd => {
                        if let Some(m) = ar.mws.iter_mut().rev().find(|m| m.midx == e.idx / 4 && m.hook == e.idx % 4 && m.end == INF) {
                            m.verdict = e.r;
                            m.end = e.seq;
                        }
                    }
                    K::SBeg => ar.nots.push(NotRec { sub: e.idx, z: e.z, x: e.x, steps: e.y, beg: e.seq, end: INF, tid: e.tid, valid: e.r == 1 }),
                    K::SEnd => {
                        if let Some(n) = ar.nots.iter_mut().rev().find(|n| n.sub == e.idx && n.end == INF) {
                            n.end = e.seq;
                        }
                    }
                    _ => {}
                }
            }
        }
        Hist { evs, names, ctx, cfg, subs, disp, st, n_red_final, n_mw_final }
    }

    /// events of kind k for store s
    pub fn of(&self, k: K, s: u8) -> impl Iterator<Item = &Ev> {
        self.evs.iter().filter(move |e| e.k == k && e.store == s)
    }

    /// seq of registration return for component (reg kind, idx) on store s; 0 = at build time
    pub fn reg_ret(&self, s: u8, reg: u8, idx: u32) -> u64 {
        self.evs.iter().find(|e| e.k == K::AddRet && e.store == s && e.r == reg && e.idx == idx).map(|e| e.seq).unwrap_or(0)
    }

    /// schedule fingerprint: hash of the merged (kind, action, idx) sequence
    pub fn fingerprint(&self) -> u64 {
        let mut h = 0x1234_5678u64;
        for e in &self.evs {
            h = mix(h, ((e.k as u64) << 56) ^ ((e.a as u64) << 20) ^ e.idx as u64 ^ ((e.r as u64) << 52));
        }
        h
    }

    pub fn ev_json(&self, e: &Ev) -> J {
        J::s(format!(
            "{:>5} t{:<2} s{} {:<18} a={} idx={} x={:x} y={} r={}",
            e.seq,
            e.tid,
            e.store,
            e.k.name(),
            id_str(e.a),
            e.idx,
            e.x & 0xffff_ffff,
            e.y,
            e.r
        ))
    }

    pub fn log_json(&self, max: usize) -> J {
        let n = self.evs.len();
        if n <= max {
            J::A(self.evs.iter().map(|e| self.ev_json(e)).collect())
        } else {
            let mut v: Vec<J> = self.evs[..max / 2].iter().map(|e| self.ev_json(e)).collect();
            v.push(J::s(format!("... {} events elided ...", n - max)));
            v.extend(self.evs[n - max / 2..].iter().map(|e| self.ev_json(e)));
            J::A(v)
        }
    }

    pub fn threads_json(&self) -> J {
        J::A(self.names.iter().enumerate().map(|(i, n)| J::s(format!("t{}={}", i, n))).collect())
    }
}

#[derive(Clone, Debug)]
pub struct Finding {
    pub prop: &'static str,
    pub msg: String,
    pub known: Option<&'static str>,
}

#[derive(Default)]
pub struct Verdicts {
    pub findings: Vec<Finding>,
    pub evaluated: BTreeSet<&'static str>,
    pub nontrivial: BTreeSet<&'static str>,
    pub counters: BTreeMap<String, u64>,
    pub inconclusive: Vec<(&'static str, String)>,
}

impl Verdicts {
    pub fn fail(&mut self, prop: &'static str, msg: String) {
        self.findings.push(Finding { prop, msg, known: None });
    }
    pub fn known(&mut self, prop: &'static str, id: &'static str, msg: String) {
        self.findings.push(Finding { prop, msg, known: Some(id) });
    }
    pub fn count(&mut self, key: &str, n: u64) {
        *self.counters.entry(key.to_string()).or_insert(0) += n;
    }
    pub fn maxc(&mut self, key: &str, n: u64) {
        let e = self.counters.entry(key.to_string()).or_insert(0);
        if n > *e {
            *e = n;
        }
    }
    pub fn inconcl(&mut self, prop: &'static str, why: String) {
        self.inconclusive.push((prop, why));
    }
    pub fn has_inconcl(&self, prop: &str) -> bool {
        self.inconclusive.iter().any(|(p, _)| *p == prop || *p == "*")
    }
}
