//! Oracles over the pipeline: C01 (fold), C02 (order), C03 (direct subscribers), C07 (phases),
//! C08 (get_state).

use crate::core::*;
use crate::hist::*;
use crate::script::*;
use crate::world::*;
use std::collections::{HashMap, HashSet};

/// first stop()/drop (not close) of store s that returned
pub fn first_stop(h: &Hist, s: u8) -> Option<&StopRec> {
    h.st[s as usize].stops.iter().find(|r| r.how != STOP_CLOSE)
}

/// seq by which every stop() racing with the first one to return has returned (== the first stop's
/// return when nothing races): the point from which "the store has stopped" is unambiguous
pub fn settled_stop_ret(h: &Hist, s: u8) -> u64 {
    let stops: Vec<&StopRec> = h.st[s as usize].stops.iter().filter(|r| r.how != STOP_CLOSE).collect();
    let m = stops.iter().map(|r| r.ret).min().unwrap_or(INF);
    stops.iter().filter(|r| r.inv < m).map(|r| r.ret).max().unwrap_or(INF)
}

pub fn stop_timed_out(h: &Hist, s: u8) -> bool {
    h.st[s as usize].stops.iter().any(|r| r.how != STOP_CLOSE && (r.ms >= 2500 || r.ret == INF))
}

pub const MARK_SETTLED: u32 = 7;
/// the scenario dropped every handle of the store instead of stopping it and then waited for quiescence
pub const MARK_ABANDONED: u32 = 16;

/// stop() ran into its timeout and the scenario did not wait for the reducer loop to end afterwards
/// (a scenario that does records MARK_SETTLED once the loop's last act, releasing the subscribers, was seen)
pub fn timed_out_unsettled(h: &Hist, s: u8) -> bool {
    stop_timed_out(h, s) && !h.evs.iter().any(|e| e.k == K::Mark && e.idx == MARK_SETTLED)
}

// ---------------------------------------------------------------------------------------------
// C01

pub struct Fold {
    /// digest -> position (0 = initial, k = after k-th reduced action in fold order)
    pub pos_of: HashMap<u64, usize>,
    /// digests of intermediate chain states (not a legal get_state value)
    pub intermediate: HashSet<u64>,
    /// for position k>=1: the action and seq of its last reduce.begin / first event
    pub pos_action: Vec<u32>,
    pub pos_last_rbeg: Vec<u64>,
    pub pos_state: Vec<St>,
    pub final_digest: u64,
    pub reduced: HashSet<u32>,
}

pub fn fold(h: &Hist, s: u8, v: &mut Verdicts, report: bool) -> Fold {
    let sh = &h.st[s as usize];
    let mut cur = St::initial(s);
    let mut f = Fold {
        pos_of: HashMap::new(),
        intermediate: HashSet::new(),
        pos_action: vec![0],
        pos_last_rbeg: vec![0],
        pos_state: vec![St::initial(s)],
        final_digest: 0,
        reduced: HashSet::new(),
    };
    f.pos_of.insert(cur.digest(), 0);
    let mut cur_a: u32 = 0;
    let mut expect_idx = 0u32;
    let mut pending: Option<St> = None;
    let mut last_rbeg = 0u64;
    let mut bad = |v: &mut Verdicts, m: String| {
        if report {
            v.fail("C01", m);
        }
    };
    let mut close_action = |f: &mut Fold, cur: &St, a: u32, last_rbeg: u64| {
        if a != 0 {
            f.intermediate.remove(&cur.digest());
            f.pos_of.insert(cur.digest(), f.pos_action.len());
            f.pos_action.push(a);
            f.pos_last_rbeg.push(last_rbeg);
            f.pos_state.push(cur.clone());
        }
    };
    for &i in &sh.rc {
        let e = &h.evs[i];
        match e.k {
            K::RBeg => {
                if e.a != cur_a {
                    close_action(&mut f, &cur, cur_a, last_rbeg);
                    if !f.reduced.insert(e.a) {
                        bad(v, format!("store {}: action {} enters the reducer chain a second time (seq {})", s, id_str(e.a), e.seq));
                    }
                    cur_a = e.a;
                    expect_idx = 0;
                }
                if pending.is_some() {
                    bad(v, format!("store {}: reduce.begin of {} (reducer {}) while another reduce call is open (seq {})", s, id_str(e.a), e.idx, e.seq));
                }
                if e.idx != expect_idx {
                    bad(v, format!("store {}: action {} reached reducer {} but reducer {} was expected next (skipped/repeated/out of order, seq {})", s, id_str(e.a), e.idx, expect_idx, e.seq));
                }
                if e.r != 1 {
                    bad(v, format!("store {}: reducer {} received a state with an invalid checksum for {} (seq {})", s, e.idx, id_str(e.a), e.seq));
                }
                if e.x != cur.digest() {
                    let what = match f.pos_of.get(&e.x) {
                        Some(p) => format!("an older state (position {} instead of {})", p, f.pos_action.len() - 1),
                        None if f.intermediate.contains(&e.x) => "an intermediate state of an earlier chain".to_string(),
                        None => "a state nobody produced".to_string(),
                    };
                    bad(v, format!("store {}: reducer {} of action {} received {} rather than the previous reducer's output (seq {})", s, e.idx, id_str(e.a), what, e.seq));
                    // resynchronise on what the reducer actually got so one defect gives one report chain
                }
                let sc = h.ctx.script(e.z);
                let act = Act { id: e.a, script: e.z };
                pending = Some(cur.apply(e.idx, &act, &sc));
                last_rbeg = e.seq;
            }
            K::REnd => {
                if let Some(p) = pending.take() {
                    if e.x != p.digest() && report {
                        // scripted reducers are deterministic: only possible if its input was wrong
                        v.count("c01.output_mismatch", 1);
                    }
                    cur = p;
                    f.intermediate.insert(cur.digest());
                    expect_idx = e.idx + 1;
                }
            }
            _ => {}
        }
    }
    close_action(&mut f, &cur, cur_a, last_rbeg);
    f.final_digest = cur.digest();
    f
}

pub fn c01(h: &Hist, s: u8, v: &mut Verdicts) {
    let sh = &h.st[s as usize];
    let cfg = &h.cfg[s as usize];
    let f = fold(h, s, v, true);
    v.evaluated.insert("C01");
    let timed_out = timed_out_unsettled(h, s);
    if timed_out {
        v.inconcl("C01", "stop() hit its timeout".into());
    }
    // chain length per action: every reducer registered before the dispatch was invoked
    let reg: Vec<(u32, u64, u64)> = (cfg.n_red..h.n_red_final[s as usize])
        .map(|i| {
            let inv = h.evs.iter().find(|e| e.k == K::AddInv && e.store == s && e.r == REG_REDUCER && e.idx == i).map(|e| e.seq).unwrap_or(0);
            (i, inv, h.reg_ret(s, REG_REDUCER, i))
        })
        .collect();
    for a in &sh.taken {
        let ar = &sh.acts[a];
        if ar.reduces.is_empty() {
            if !ar.vetoed() && cfg.n_red > 0 && !timed_out {
                v.fail("C01", format!("store {}: action {} was taken but never reached a reducer and no middleware vetoed it", s, id_str(*a)));
            }
            continue;
        }
        let k = ar.reduces.len() as u32;
        let inv = h.disp.get(a).map(|d| d.inv).unwrap_or(0);
        let lower = cfg.n_red + reg.iter().filter(|(_, _, ret)| inv != 0 && *ret != 0 && *ret < inv).count() as u32;
        let last_beg = ar.reduces.last().map(|r| r.beg).unwrap_or(0);
        let upper = cfg.n_red + reg.iter().filter(|(_, i, _)| *i < last_beg).count() as u32;
        if ar.reduces.iter().all(|r| r.end != INF) && (k < lower || k > upper) {
            v.fail("C01", format!("store {}: action {} went through {} reducers, expected between {} and {} (chain not run as a whole exactly once)", s, id_str(*a), k, lower, upper));
        }
    }
    // exactly-once of accepted actions (BlockOnFull), nothing invented
    let mut accepted = 0u64;
    for (a, d) in &h.disp {
        if id_store(*a) != s {
            continue;
        }
        if d.ok == Some(true) {
            accepted += 1;
            let ended = first_stop(h, s).is_some() || h.evs.iter().any(|e| e.k == K::Mark && e.idx == MARK_ABANDONED);
            if cfg.policy == POL_BLOCK && !timed_out && ended && cfg.n_red > 0 {
                match sh.acts.get(a) {
                    None => v.fail("C01", format!("store {}: action {} was accepted (dispatch returned Ok, {}) but never reached the pipeline", s, id_str(*a), EP_NAMES[d.ep as usize])),
                    Some(ar) => {
                        if !ar.vetoed() && !f.reduced.contains(a) {
                            v.fail("C01", format!("store {}: accepted action {} was never reduced", s, id_str(*a)));
                        }
                    }
                }
            }
        }
    }
    for a in &sh.taken {
        if !h.disp.contains_key(a) && id_gen(*a) == 0 {
            v.fail("C01", format!("store {}: action {} was processed but nobody dispatched it", s, id_str(*a)));
        }
    }
    // get_state after stop() == state after the last reduced action
    if let Some(sr) = first_stop(h, s) {
        if sr.ret != INF && !timed_out {
            let mut n = 0;
            for e in h.of(K::GRet, s) {
                // the matching inv is the previous event of that thread; ret > stop.ret + the read
                // was made by the harness after stop returned (idx 0 = client read)
                if e.idx == 0 && read_inv(h, e) > sr.ret {
                    n += 1;
                    if e.x != f.final_digest {
                        let p = f.pos_of.get(&e.x).map(|p| format!("position {}", p)).unwrap_or("unknown state".into());
                        v.fail("C01", format!("store {}: get_state() after stop() returned {} but {} actions were reduced (last {})", s, p, f.pos_action.len() - 1, id_str(*f.pos_action.last().unwrap())));
                    }
                }
            }
            v.count("c01.final_reads", n);
        }
    }
    v.count("c01.actions_reduced", f.reduced.len() as u64);
    v.count("c01.accepted", accepted);
    // non-trivial: >= 2 producers overlapped, >= 1 Keep, chain length >= 2
    let producers: HashSet<u32> = h.disp.iter().filter(|(a, _)| id_store(**a) == s).map(|(_, d)| d.tid).collect();
    let any_keep = sh.acts.values().any(|ar| ar.reduces.iter().any(|r| r.keep));
    let chain2 = sh.acts.values().any(|ar| ar.reduces.len() >= 2);
    if producers.len() >= 2 && any_keep && chain2 && overlapping_producers(h, s) {
        v.nontrivial.insert("C01");
    }
}

pub fn read_inv(h: &Hist, ret: &Ev) -> u64 {
    // GInv precedes its GRet on the same thread; find the closest earlier GInv of this tid
    let i = h.evs.partition_point(|e| e.seq < ret.seq);
    let mut j = i;
    while j > 0 {
        j -= 1;
        let e = &h.evs[j];
        if e.tid == ret.tid && e.k == K::GInv {
            return e.seq;
        }
    }
    0
}

pub fn overlapping_producers(h: &Hist, s: u8) -> bool {
    // two dispatches from different threads whose [inv, ret] intervals overlap, or interleave in time
    let mut v: Vec<(&u32, &DispRec)> = h.disp.iter().filter(|(a, _)| id_store(**a) == s).collect();
    v.sort_by_key(|(_, d)| d.inv);
    let mut first_tid = None;
    let mut switches = 0;
    for (_, d) in v {
        if first_tid != Some(d.tid) {
            switches += 1;
            first_tid = Some(d.tid);
        }
    }
    switches >= 3
}

// ---------------------------------------------------------------------------------------------
// C02

pub fn c02(h: &Hist, s: u8, v: &mut Verdicts) {
    let sh = &h.st[s as usize];
    v.evaluated.insert("C02");
    let mut max_inv: u64 = 0;
    let mut max_inv_a: u32 = 0;
    let mut pairs = 0u64;
    let mut last_of_thread: HashMap<u32, (u64, u32)> = HashMap::new();
    let mut eps = HashSet::new();
    let mut sorted_rets: Vec<u64> = Vec::new();
    for a in &sh.taken {
        let d = match h.disp.get(a) {
            Some(d) => d,
            None => continue,
        };
        eps.insert(d.ep);
        // real-time order: some earlier-taken b was invoked after a's dispatch had returned
        if d.ret != INF && d.ret < max_inv {
            v.fail(
                "C02",
                format!(
                    "store {} ({}, cap {}): dispatch of {} returned (seq {}) before dispatch of {} was invoked (seq {}), yet {} was reduced first",
                    s,
                    POL_NAMES[h.cfg[s as usize].policy as usize],
                    h.cfg[s as usize].cap,
                    id_str(*a),
                    d.ret,
                    id_str(max_inv_a),
                    max_inv,
                    id_str(max_inv_a)
                ),
            );
        }
        // per-thread program order
        if let Some((inv, b)) = last_of_thread.get(&d.tid) {
            if *inv > d.inv {
                v.fail("C02", format!("store {}: thread t{} dispatched {} before {} but {} was reduced first", s, d.tid, id_str(*a), id_str(*b), id_str(*b)));
            }
        }
        last_of_thread.insert(d.tid, (d.inv, *a));
        // count cross-thread real-time-ordered pairs that were compared (earlier rets < this inv)
        pairs += sorted_rets.iter().filter(|r| **r < d.inv).count().min(64) as u64;
        if d.ret != INF {
            sorted_rets.push(d.ret);
        }
        if d.inv > max_inv {
            max_inv = d.inv;
            max_inv_a = *a;
        }
    }
    v.count("c02.rt_ordered_pairs_compared", pairs);
    v.count("c02.actions_compared", sh.taken.len() as u64);
    let tids: HashSet<u32> = sh.taken.iter().filter_map(|a| h.disp.get(a)).map(|d| d.tid).collect();
    if pairs > 0 && eps.len() >= 2 && tids.len() >= 2 {
        v.nontrivial.insert("C02");
    }
}

// ---------------------------------------------------------------------------------------------
// C03

pub fn c03(h: &Hist, s: u8, v: &mut Verdicts) {
    let sh = &h.st[s as usize];
    v.evaluated.insert("C03");
    if timed_out_unsettled(h, s) {
        v.inconcl("C03", "stop() hit its timeout".into());
        return;
    }
    let unsubscribed: HashSet<u32> = h.evs.iter().filter(|e| e.k == K::UInv).map(|e| e.idx).collect();
    let whole: Vec<&SubInfo> = h
        .subs
        .iter()
        .filter(|si| si.kind == SK_DIRECT && si.at_build && (si.store == s || si.shared) && !unsubscribed.contains(&si.id))
        .collect();
    // expected stream from the reducer log
    #[derive(Clone)]
    struct Exp {
        a: u32,
        required: bool,
        forbidden: bool,
        state: Option<u64>,
    }
    let mut exp: Vec<Exp> = Vec::new();
    let mut cur = St::initial(s).digest();
    let mut keep_between = false;
    let mut seen_dispatch = false;
    let mut pattern_ok = false;
    for a in &sh.taken {
        let ar = &sh.acts[a];
        let incomplete = ar.reduces.iter().any(|r| r.end == INF);
        if incomplete {
            continue;
        }
        if ar.vetoed() {
            exp.push(Exp { a: *a, required: false, forbidden: false, state: Some(cur) });
            continue;
        }
        if let Some(p) = ar.post() {
            cur = p;
        }
        match ar.notifying() {
            None => exp.push(Exp { a: *a, required: false, forbidden: false, state: if ar.reduces.is_empty() { Some(cur) } else { ar.post() } }),
            Some(false) => {
                if seen_dispatch {
                    keep_between = true;
                }
                exp.push(Exp { a: *a, required: false, forbidden: true, state: None })
            }
            Some(true) => {
                if ar.bd_done() {
                    exp.push(Exp { a: *a, required: false, forbidden: true, state: None });
                } else {
                    if keep_between {
                        pattern_ok = true;
                    }
                    seen_dispatch = true;
                    exp.push(Exp { a: *a, required: true, forbidden: false, state: ar.post() });
                }
            }
        }
    }
    let mut compared = 0u64;
    for si in &whole {
        let actual: Vec<&Ev> = h.evs.iter().filter(|e| e.k == K::SBeg && e.idx == si.id && e.store == s).collect();
        let mut j = 0usize;
        for e in &exp {
            let here = j < actual.len() && actual[j].a == e.a;
            if here {
                let ev = actual[j];
                j += 1;
                compared += 1;
                if e.forbidden {
                    let why = if sh.acts[&e.a].bd_done() { "a before_dispatch hook answered DoneAction" } else { "its reducers answered Keep" };
                    v.fail("C03", format!("store {}: subscriber {} was notified of {} although {} (seq {})", s, si.id, id_str(e.a), why, ev.seq));
                } else if let Some(x) = e.state {
                    if ev.x != x || ev.r != 1 {
                        v.fail("C03", format!("store {}: subscriber {} was notified of {} with a state that is not the one this action produced (seq {})", s, si.id, id_str(e.a), ev.seq));
                    }
                }
                // action payload integrity
                if let Some(r) = sh.acts[&e.a].reduces.first() {
                    if r.z != ev.z {
                        v.fail("C03", format!("store {}: subscriber {} received a different action payload for {} (seq {})", s, si.id, id_str(e.a), ev.seq));
                    }
                }
            } else if e.required {
                // is it elsewhere (order) or missing?
                let pos = actual.iter().position(|x| x.a == e.a);
                match pos {
                    Some(p) => v.fail("C03", format!("store {}: subscriber {} saw {} out of reduce order (at stream position {}, expected {})", s, si.id, id_str(e.a), p, j)),
                    None => v.fail("C03", format!("store {}: subscriber {} (registered for the whole run) never saw notifying action {}", s, si.id, id_str(e.a))),
                }
            }
        }
        if j < actual.len() {
            let ev = actual[j];
            let dup = actual[..j].iter().any(|x| x.a == ev.a);
            v.fail(
                "C03",
                format!("store {}: subscriber {} got an unexpected notification for {} (seq {}){}", s, si.id, id_str(ev.a), ev.seq, if dup { " - second notification of the same action" } else { "" }),
            );
        }
    }
    // subscribers registered at run time and never unsubscribed are "whole run" from their first
    // notification on: from there to the end their stream is the expected one, gap-free and in order
    let first_shutdown = sh.stops.iter().map(|r| r.inv).min().unwrap_or(INF);
    for si in h.subs.iter().filter(|si| si.kind == SK_DIRECT && !si.at_build && si.store == s && !unsubscribed.contains(&si.id)) {
        if h.reg_ret(s, REG_SUB, si.id) == 0 || h.reg_ret(s, REG_SUB, si.id) > first_shutdown {
            continue;
        }
        let actual: Vec<&Ev> = h.evs.iter().filter(|e| e.k == K::SBeg && e.idx == si.id && e.store == s).collect();
        if actual.is_empty() {
            continue;
        }
        let start = match exp.iter().position(|e| e.a == actual[0].a) {
            Some(p) => p,
            None => continue,
        };
        let mut j = 0usize;
        for e in &exp[start..] {
            if j < actual.len() && actual[j].a == e.a {
                if e.forbidden {
                    v.fail("C03", format!("store {}: subscriber {} (registered at run time) was notified of {} although it does not notify", s, si.id, id_str(e.a)));
                } else if let Some(x) = e.state {
                    if actual[j].x != x {
                        v.fail("C03", format!("store {}: subscriber {} (registered at run time) was notified of {} with a state that is not the one this action produced", s, si.id, id_str(e.a)));
                    }
                }
                j += 1;
                compared += 1;
            } else if e.required {
                v.fail("C03", format!("store {}: subscriber {} (registered at run time, never unsubscribed) saw {} and later actions but never {} (gap in its stream)", s, si.id, id_str(actual[0].a), id_str(e.a)));
                break;
            }
        }
    }
    // registration order inside each action
    let order: HashMap<u32, usize> = whole.iter().enumerate().map(|(i, si)| (si.id, i)).collect();
    for a in &sh.taken {
        let ar = &sh.acts[a];
        let mut last: Option<(usize, u64)> = None;
        for n in &ar.nots {
            if let Some(&o) = order.get(&n.sub) {
                if let Some((lo, lend)) = last {
                    if o <= lo || n.beg < lend {
                        v.fail("C03", format!("store {}: within action {} subscribers were not called one after another in registration order (subscriber {} at seq {})", s, id_str(*a), n.sub, n.beg));
                    }
                }
                last = Some((o, n.end));
            }
        }
    }
    v.count("c03.notifications_compared", compared);
    v.count("c03.whole_run_subscribers", whole.len() as u64);
    let tids: HashSet<u32> = sh.taken.iter().filter_map(|a| h.disp.get(a)).map(|d| d.tid).collect();
    if tids.len() >= 2 && whole.len() >= 2 && pattern_ok && compared > 0 {
        v.nontrivial.insert("C03");
    }
}

// ---------------------------------------------------------------------------------------------
// C07

const PH_NAMES: [&str; 5] = ["before_reduce", "reduce", "before_effect", "before_dispatch", "subscribers"];

fn phase_of(e: &Ev) -> (u32, u32) {
    match e.k {
        K::RBeg | K::REnd => (1, e.idx),
        K::MBeg | K::MEnd => match e.idx % 4 {
            0 => (0, e.idx / 4),
            1 => (2, e.idx / 4),
            _ => (3, e.idx / 4),
        },
        _ => (4, e.idx),
    }
}

pub fn c07(h: &Hist, s: u8, v: &mut Verdicts) {
    let sh = &h.st[s as usize];
    let cfg = &h.cfg[s as usize];
    v.evaluated.insert("C07");
    // 1. non-overlap + contiguity + phase order
    let mut open: Option<(K, u32, u32, u64)> = None;
    let mut cur_a = 0u32;
    let mut done: HashSet<u32> = HashSet::new();
    let mut last_phase: (u32, i64) = (0, -1);
    // registration intervals of subscribers: (AddInv, AddRet)
    let mut reg_iv: HashMap<u32, (u64, u64)> = HashMap::new();
    for e in h.evs.iter().filter(|e| e.r == REG_SUB && (e.store == s || e.store == 255)) {
        match e.k {
            K::AddInv => {
                reg_iv.entry(e.idx).or_insert((e.seq, INF)).0 = e.seq;
            }
            K::AddRet => {
                reg_iv.entry(e.idx).or_insert((0, e.seq)).1 = e.seq;
            }
            _ => {}
        }
    }
    let mut subs_in_action: Vec<u32> = Vec::new();
    let mut callbacks = 0u64;
    for &i in &sh.rc {
        let e = &h.evs[i];
        match e.k {
            K::MErr | K::SelCb => continue,
            K::RBeg | K::MBeg | K::SBeg => {
                callbacks += 1;
                if let Some((k, a, idx, seq)) = open {
                    v.fail(
                        "C07",
                        format!("store {}: {} of {} (idx {}) began at seq {} while {} of {} (idx {}, begun at seq {}) had not returned - callbacks overlap", s, e.k.name(), id_str(e.a), e.idx, e.seq, k.name(), id_str(a), idx, seq),
                    );
                }
                open = Some((e.k, e.a, e.idx, e.seq));
                if e.a != cur_a {
                    if done.contains(&e.a) {
                        v.fail("C07", format!("store {}: callbacks of action {} resumed at seq {} after another action's callbacks had started - actions are not processed one at a time", s, id_str(e.a), e.seq));
                    }
                    if cur_a != 0 {
                        done.insert(cur_a);
                    }
                    cur_a = e.a;
                    last_phase = (0, -1);
                    subs_in_action.clear();
                }
                let (ph, idx) = phase_of(e);
                if ph == 4 {
                    // subscribers: n2 called after n1 although n2's registration had returned before
                    // n1's was even invoked
                    if let Some((_, ret2)) = reg_iv.get(&idx) {
                        for n1 in &subs_in_action {
                            if let Some((inv1, _)) = reg_iv.get(n1) {
                                if *ret2 < *inv1 {
                                    v.fail("C07", format!("store {}: action {}: subscriber {} (registered first) was called after subscriber {} (registered later) - not in registration order (seq {})", s, id_str(e.a), idx, n1, e.seq));
                                }
                            }
                        }
                    }
                    subs_in_action.push(idx);
                }
                let idx = if ph == 4 { -1 } else { idx as i64 };
                if ph < last_phase.0 {
                    v.fail("C07", format!("store {}: action {}: {} ran after {} (seq {})", s, id_str(e.a), PH_NAMES[ph as usize], PH_NAMES[last_phase.0 as usize], e.seq));
                } else if ph == last_phase.0 && ph != 4 && idx <= last_phase.1 {
                    v.fail("C07", format!("store {}: action {}: {} components ran out of registration order ({} after {}, seq {})", s, id_str(e.a), PH_NAMES[ph as usize], idx, last_phase.1, e.seq));
                }
                last_phase = (ph, idx);
            }
            K::REnd | K::MEnd | K::SEnd => match open {
                Some((_, a, idx, _)) if a == e.a && idx == e.idx => open = None,
                _ => {
                    v.fail("C07", format!("store {}: {} of {} (idx {}) at seq {} does not close the callback that was open", s, e.k.name(), id_str(e.a), e.idx, e.seq));
                    open = None;
                }
            },
            _ => {}
        }
    }
    // 2. nobody registered before the dispatch is left out
    let timed_out = timed_out_unsettled(h, s);
    let mut late_reg_then_dispatch = 0u64;
    let regs: Vec<&Ev> = h.evs.iter().filter(|e| e.k == K::AddRet && e.store == s).collect();
    let uinv: HashMap<u32, u64> = h.evs.iter().filter(|e| e.k == K::UInv).map(|e| (e.idx, e.seq)).collect();
    if !timed_out {
        for a in &sh.taken {
            let ar = &sh.acts[a];
            let d = match h.disp.get(a) {
                Some(d) => d,
                None => continue,
            };
            if ar.reduces.iter().any(|r| r.end == INF) || ar.mws.iter().any(|m| m.end == INF) {
                continue;
            }
            let vetoed = ar.vetoed();
            // a store without reducers has nobody to answer Keep: every non-vetoed action notifies
            let no_reducers = cfg.n_red == 0 && h.n_red_final[s as usize] == 0;
            let notif = if no_reducers && !vetoed { Some(true) } else { ar.notifying() };
            let brk = |hook: u32, midx: u32| ar.mws.iter().any(|m| m.hook == hook && m.midx < midx && m.verdict == V_BREAK);
            // reducers
            let n_red_req = cfg.n_red + regs.iter().filter(|e| e.r == REG_REDUCER && e.seq < d.inv).count() as u32;
            if !vetoed {
                for i in 0..n_red_req {
                    if !ar.reduces.iter().any(|r| r.ridx == i) {
                        v.fail("C07", format!("store {}: reducer {} was registered before {} was dispatched but was left out of its pipeline", s, i, id_str(*a)));
                    }
                }
            }
            let n_mw_req = cfg.n_mw + regs.iter().filter(|e| e.r == REG_MW && e.seq < d.inv).count() as u32;
            for m in 0..n_mw_req {
                for hook in 0..3u32 {
                    let present = ar.mws.iter().any(|x| x.midx == m && x.hook == hook);
                    let excused = brk(hook, m) || (hook >= 1 && vetoed) || (hook == 2 && notif != Some(true));
                    if !present && !excused {
                        v.fail("C07", format!("store {}: middleware {} ({}) was registered before {} was dispatched but was not called for it", s, m, PH_NAMES[[0, 2, 3][hook as usize]], id_str(*a)));
                    }
                }
            }
            if notif == Some(true) && !vetoed && !ar.bd_done() {
                for si in h.subs.iter().filter(|si| si.kind == SK_DIRECT && si.store == s) {
                    let reg = if si.at_build { 0 } else { h.reg_ret(s, REG_SUB, si.id) };
                    if !si.at_build && reg == 0 {
                        continue;
                    }
                    if reg < d.inv && !uinv.contains_key(&si.id) && !ar.nots.iter().any(|n| n.sub == si.id) {
                        v.fail("C07", format!("store {}: subscriber {} was registered before {} was dispatched but was not notified of it", s, si.id, id_str(*a)));
                    }
                }
            }
            if regs.iter().any(|e| e.seq < d.inv && e.tid == d.tid) {
                late_reg_then_dispatch += 1;
            }
        }
    }
    v.count("c07.callbacks", callbacks);
    v.count("c07.dispatch_after_runtime_registration", late_reg_then_dispatch);
    v.count("c07.reducer_context_threads", sh.rc_tids.len() as u64);
    let tids: HashSet<u32> = sh.taken.iter().filter_map(|a| h.disp.get(a)).map(|d| d.tid).collect();
    let phases: HashSet<u32> = sh.rc.iter().map(|&i| &h.evs[i]).filter(|e| matches!(e.k, K::RBeg | K::MBeg | K::SBeg)).map(|e| phase_of(e).0).collect();
    let unsubscribed_midrun = h.evs.iter().any(|e| e.k == K::UInv && e.store == s);
    if tids.len() >= 2 && phases.len() >= 2 && (late_reg_then_dispatch > 0 || unsubscribed_midrun) {
        v.nontrivial.insert("C07");
    }
}

// ---------------------------------------------------------------------------------------------
// C08

pub fn c08(h: &Hist, s: u8, v: &mut Verdicts) {
    let sh = &h.st[s as usize];
    v.evaluated.insert("C08");
    let f = fold(h, s, v, false);
    // reads: pair GInv/GRet per thread
    struct Rd {
        inv: u64,
        ret: u64,
        pos: usize,
        tid: u32,
        wh: u32,
    }
    let mut open: HashMap<u32, u64> = HashMap::new();
    let mut reads: Vec<Rd> = Vec::new();
    for e in h.evs.iter().filter(|e| e.store == s) {
        match e.k {
            K::GInv => {
                open.insert(e.tid, e.seq);
            }
            K::GRet => {
                let inv = open.remove(&e.tid).unwrap_or(e.seq);
                if e.r != 1 {
                    v.fail("C08", format!("store {}: get_state() returned a state whose checksum is invalid (seq {})", s, e.seq));
                    continue;
                }
                match f.pos_of.get(&e.x) {
                    Some(&pos) => {
                        if pos > 0 && f.pos_last_rbeg[pos] > e.seq {
                            v.fail("C08", format!("store {}: get_state() returned the state of {} before that action had been reduced (seq {})", s, id_str(f.pos_action[pos]), e.seq));
                        }
                        reads.push(Rd { inv, ret: e.seq, pos, tid: e.tid, wh: e.idx });
                    }
                    None => {
                        if f.intermediate.contains(&e.x) {
                            v.fail("C08", format!("store {}: get_state() returned an intermediate state of a reducer chain (after {} steps, seq {})", s, e.y, e.seq));
                        } else {
                            v.fail("C08", format!("store {}: get_state() returned a state no reducer produced (steps {}, seq {})", s, e.y, e.seq));
                        }
                    }
                }
            }
            _ => {}
        }
    }
    // monotone along real time: ret(r1) < inv(r2) => pos(r1) <= pos(r2)
    let mut by_ret: Vec<usize> = (0..reads.len()).collect();
    by_ret.sort_by_key(|&i| reads[i].ret);
    let mut by_inv: Vec<usize> = (0..reads.len()).collect();
    by_inv.sort_by_key(|&i| reads[i].inv);
    let mut j = 0;
    let mut maxpos = 0usize;
    let mut maxpos_seq = 0u64;
    for &i in &by_inv {
        while j < by_ret.len() && reads[by_ret[j]].ret < reads[i].inv {
            if reads[by_ret[j]].pos > maxpos {
                maxpos = reads[by_ret[j]].pos;
                maxpos_seq = reads[by_ret[j]].ret;
            }
            j += 1;
        }
        if reads[i].pos < maxpos {
            v.fail(
                "C08",
                format!("store {}: get_state() went backwards: a read that returned at seq {} saw position {}, a later read (t{}, invoked at seq {}) saw position {}", s, maxpos_seq, maxpos, reads[i].tid, reads[i].inv, reads[i].pos),
            );
        }
    }
    // published before notification: a read invoked after on_notify(S, a) began sees >= pos(a)
    let mut nbeg: Vec<(u64, usize)> = Vec::new(); // (seq of SBeg, pos of its state)
    for e in h.evs.iter().filter(|e| e.k == K::SBeg && e.store == s) {
        if let Some(&p) = f.pos_of.get(&e.x) {
            // only non-vetoed notifications identify a produced state
            nbeg.push((e.seq, p));
        }
    }
    let mut in_notification = 0u64;
    for r in &reads {
        let k = nbeg.partition_point(|(seq, _)| *seq < r.inv);
        if k > 0 {
            let need = nbeg[..k].iter().map(|(_, p)| *p).max().unwrap();
            if r.pos < need {
                v.fail("C08", format!("store {}: a subscriber had already been told about position {} when get_state() (t{}, inv seq {}) still returned position {}", s, need, r.tid, r.inv, r.pos));
            }
            if r.wh == 1 {
                in_notification += 1;
            }
        }
    }
    // reads inside before_reduce(a) see >= the previous action
    v.count("c08.reads_matched", reads.len() as u64);
    v.count("c08.reads_inside_callbacks", reads.iter().filter(|r| r.wh != 0).count() as u64);
    let mut per_tid: HashMap<u32, HashSet<usize>> = HashMap::new();
    for r in &reads {
        per_tid.entry(r.tid).or_default().insert(r.pos);
    }
    let maxdistinct = per_tid.values().map(|x| x.len()).max().unwrap_or(0);
    v.maxc("c08.max_distinct_positions_one_reader", maxdistinct as u64);
    if reads.len() >= 20 && maxdistinct >= 3 && in_notification >= 1 {
        v.nontrivial.insert("C08");
    }
    let _ = sh;
}

/// The notification stream a registered direct subscriber must see: notifying actions in taken
/// order with the state each produced. (action, state digest, selected value, seq of first event)
pub fn notif_stream(h: &Hist, s: u8, f: &Fold) -> Vec<(u32, u64, u8, u64)> {
    let sh = &h.st[s as usize];
    let mut out = Vec::new();
    for a in &sh.taken {
        let ar = &sh.acts[a];
        if ar.vetoed() || ar.bd_done() || ar.notifying() != Some(true) {
            continue;
        }
        if let Some(p) = ar.post() {
            let sel = f.pos_of.get(&p).map(|i| f.pos_state[*i].sel).unwrap_or(255);
            out.push((*a, p, sel, ar.first));
        }
    }
    out
}
