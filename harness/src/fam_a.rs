//! Family A: pipeline stress. Feeds C01 C02 C03 C07 C08 (and C18 via metrics in fam_j).

use crate::core::*;
use crate::hist::*;
use crate::json::J;
use crate::oracle_a::*;
use crate::script::*;
use crate::world::*;
use crate::Outcome;
use std::sync::atomic::{AtomicBool, AtomicU32, Ordering};
use std::sync::Arc;

#[derive(Clone, Debug)]
pub struct ACfg {
    pub policy: u8,
    pub cap: usize,
    pub n_red: u32,
    pub n_mw: u32,
    pub n_sub: u32,
    pub n_readers: u32,
    pub producers: Vec<Vec<(Act, u32)>>,
    pub baton: bool,
    pub runtime_reg: Vec<(usize, usize, u8)>, // (producer, before its k-th action, kind)
    pub perturb: u8,
    pub read_in_cb: bool,
    pub scripts: Vec<Script>,
    pub stop_how: u32,
    pub sampler: bool,
    /// 1: reducer 0 parks inside the first action's chain while another thread registers a reducer, a
    /// middleware and a subscriber; 2: the first subscriber parks inside its first notification while
    /// another thread unsubscribes it and registers a new one
    pub mid_phase: u8,
    /// how the store is constructed (see StoreCfg::ctor); only with the default capacity and policy
    pub ctor: u8,
    pub default_name: bool,
    /// stop() is called while the reducer is parked with a backlog and the gate opens only after stop()
    /// has run into its timeout; the scenario then waits for the reducer loop to end on its own
    pub stop_timeout: bool,
    /// a direct subscriber panics inside on_notify of the k-th action while readers sample get_state();
    /// only C08 is judged (the reducer context does not survive the panic in the unmodified code)
    pub sub_panic: bool,
    /// every handle of the store is dropped without stop() while accepted actions are still queued behind
    /// a parked reducer; the reducer context keeps the store alive and works the queue off
    pub abandon: bool,
}

pub fn gen(rng: &mut Rng, tiny: bool, focus: &str) -> ACfg {
    let policy = match focus {
        "C01" | "C03" | "C07" | "C08" => {
            if rng.chance(4, 5) {
                POL_BLOCK
            } else {
                rng.below(3) as u8
            }
        }
        _ => rng.below(3) as u8,
    };
    let cap = *rng.pick(&[1usize, 2, 3, 5, 16]);
    // one store in ten has no reducer at all (without_reducer): actions still run the middleware and
    // notification phases
    let n_red = if rng.chance(1, 10) { 0 } else { rng.range(1, 4) as u32 };
    let n_mw = rng.below(3) as u32;
    let n_sub = rng.below(4) as u32;
    let n_prod = if tiny { rng.range(1, 3) } else { rng.range(1, 6) } as usize;
    let max_actions = if tiny { 3 } else { 40 };
    let n_readers = if tiny { rng.below(2) } else { rng.below(3) } as u32;
    // scripts
    let mut scripts = Vec::new();
    let n_scripts = 8;
    for i in 0..n_scripts {
        let mut sc = Script::plain();
        match rng.below(10) {
            0..=3 => {}
            4 | 5 => sc.keep = 0xff,
            6 => sc.keep = rng.below(16) as u8, // mixed chain
            7 => {
                if n_mw > 0 {
                    sc.mw[rng.below(n_mw as u64) as usize][0] = V_DONE; // veto
                }
            }
            8 => {
                if n_mw > 0 {
                    sc.mw[rng.below(n_mw as u64) as usize][2] = V_DONE; // suppress notification
                }
            }
            _ => {
                let r = rng.below(n_red.max(1) as u64) as usize;
                sc.eff[r] = Some(EffSpec { kind: if rng.chance(1, 2) { EK_TASK } else { EK_FUNC }, follow_script: 0, n_follow: 0, panic: rng.chance(1, 6), gate: NOGATE });
            }
        }
        sc.sel = if rng.chance(1, 2) { rng.below(3) as u8 } else { 255 };
        if i == 0 {
            sc = Script::plain();
        }
        scripts.push(sc);
    }
    let mut total = 0usize;
    let mut producers = Vec::new();
    for p in 0..n_prod {
        let n = rng.range(1, max_actions) as usize;
        let mut v = Vec::new();
        for k in 0..n {
            let ep = match rng.below(8) {
                0..=2 => EP_INHERENT,
                3 | 4 => EP_STORE_TRAIT,
                5 | 6 => EP_DISPATCHER,
                _ => EP_THUNK,
            };
            v.push((Act { id: act_id(0, p as u32 + 1, k as u32 + 1), script: rng.below(n_scripts) as u32 }, ep));
        }
        total += n;
        producers.push(v);
    }
    // middleware dispatch (EP_MW) only where the reducer thread cannot block on its own queue
    if n_mw > 0 && (policy != POL_BLOCK || cap > 3 * total) && rng.chance(1, 2) {
        let mut sc = Script::plain();
        sc.mw_dispatch = rng.range(1, 2) as u8;
        sc.mw_dispatch_script = 0;
        scripts.push(sc);
        let idx = scripts.len() as u32 - 1;
        for v in producers.iter_mut() {
            if let Some(x) = v.first_mut() {
                x.0.script = idx;
            }
        }
    }
    let mut runtime_reg = Vec::new();
    if rng.chance(1, 2) {
        for _ in 0..rng.range(1, 3) {
            let p = rng.below(n_prod as u64) as usize;
            let k = rng.below(producers[p].len() as u64) as usize;
            runtime_reg.push((p, k, rng.below(3) as u8));
        }
    }
    let mid_phase = if policy != POL_BLOCK || std::env::var("RSV_NOMID").is_ok() { 0 } else if n_red >= 2 && rng.chance(1, if tiny { 3 } else { 6 }) { 1 } else if n_sub >= 2 && n_red >= 1 && rng.chance(1, if tiny { 2 } else { 5 }) { 2 } else if n_mw >= 1 && n_red >= 1 && rng.chance(1, if tiny { 2 } else { 5 }) { 3 } else { 0 };
    if mid_phase == 1 {
        // script: plain but parks reducer 0 at gate 0; used by the very first action of producer 1
        let mut sc = Script::plain();
        sc.rgate = 0;
        scripts.push(sc);
        let idx = scripts.len() as u32 - 1;
        producers[0][0].0.script = idx;
    }
    if mid_phase == 3 {
        // middleware 0 parks inside before_effect of the first action
        let mut sc = Script::plain();
        sc.rgate = 0;
        sc.mgate_idx = 0;
        sc.mgate_hook = 1;
        scripts.push(sc);
        let idx = scripts.len() as u32 - 1;
        producers[0][0].0.script = idx;
    }
    if mid_phase == 2 {
        let mut sc = Script::plain();
        sc.sgate = true;
        scripts.push(sc);
        let idx = scripts.len() as u32 - 1;
        producers[0][0].0.script = idx;
    }
    let default_name = rng.chance(1, 2);
    let stop_timeout = policy == POL_BLOCK && (rng.chance(1, if tiny { 8 } else { 300 }) || std::env::var("RSV_FORCE").as_deref() == Ok("stop_timeout"));
    let abandon = !stop_timeout && policy == POL_BLOCK && rng.chance(1, if tiny { 8 } else { 40 });
    let sub_panic = !abandon && !stop_timeout && focus == "C08" && rng.chance(1, if tiny { 6 } else { 25 });
    ACfg {
        policy,
        cap,
        n_red,
        n_mw,
        n_sub,
        n_readers,
        producers,
        baton: rng.chance(1, 4),
        runtime_reg,
        perturb: rng.below(3) as u8,
        read_in_cb: focus == "C08" || rng.chance(1, 3),
        scripts,
        stop_how: if rng.chance(1, 4) { STOP_TRAIT } else { STOP_STOP },
        sampler: focus == "C18" || rng.chance(1, 4),
        mid_phase,
        ctor: if cap == 16 && policy == POL_BLOCK { rng.below(3) as u8 } else { 0 },
        default_name,
        stop_timeout,
        sub_panic,
        abandon,
    }
}

pub fn describe(c: &ACfg) -> J {
    J::obj(vec![
        ("family", J::s("A")),
        ("policy", J::s(POL_NAMES[c.policy as usize])),
        ("capacity", J::U(c.cap as u64)),
        ("constructor", J::s(["StoreBuilder", "StoreImpl::new_with_name/new_with_reducer + add_*", "StoreImpl::new + add_*"][c.ctor as usize])),
        ("reducers", J::U(c.n_red as u64)),
        ("middlewares", J::U(c.n_mw as u64)),
        ("direct_subscribers", J::U(c.n_sub as u64)),
        ("readers", J::U(c.n_readers as u64)),
        ("producers", J::A(c.producers.iter().map(|p| J::s(p.iter().map(|(a, ep)| format!("{}/e{}/z{}", id_str(a.id), ep, a.script)).collect::<Vec<_>>().join(" "))).collect())),
        ("baton", J::B(c.baton)),
        ("runtime_registrations", J::A(c.runtime_reg.iter().map(|(p, k, kind)| J::s(format!("producer {} before action {}: {}", p + 1, k + 1, ["add_reducer", "add_middleware", "add_subscriber"][*kind as usize]))).collect())),
        ("perturb", J::U(c.perturb as u64)),
        ("read_in_callbacks", J::B(c.read_in_cb)),
        ("stop_runs_into_its_timeout", J::B(c.stop_timeout)),
        ("subscriber_panics_inside_on_notify", J::B(c.sub_panic)),
        ("all_handles_dropped_without_stop_with_a_backlog", J::B(c.abandon)),
        ("mid_phase_variant", J::s(["none", "registrations while reducer 0 is parked inside a chain", "unsubscribe + subscribe while the first subscriber is parked inside a notification", "add_middleware while middleware 0 is parked inside before_effect"][c.mid_phase as usize])),
    ])
}

/// stop() with a parked reducer and a backlog: stop() gives up after its timeout, the gate opens, the
/// reducer loop works the backlog off and releases the subscribers; only then is the history judged.
fn execute_timeout(c: &ACfg, seed: u64) -> (W, bool) {
    let mut gated = Script::plain();
    gated.rgate = 0;
    let mut keep = Script::plain();
    keep.keep = 0xff;
    let ctx = Ctx::new(ScriptSrc::Table(vec![gated, Script::plain(), keep]), 1, seed, c.perturb, c.read_in_cb);
    let w = W::new(ctx, vec![StoreCfg { policy: POL_BLOCK, cap: 16, n_red: c.n_red.max(1), n_mw: c.n_mw, name: "rsva".into(), ctor: 0 }]);
    let released = Arc::new(Counter::new());
    let r2 = released.clone();
    let mut subs = vec![w.add_direct_sub(0, true, |s| s.unsub_counter = Some(r2))];
    subs.push(w.add_direct(0, NOGATE, false, true, false));
    if c.n_sub % 2 == 1 {
        subs.push(w.add_channeled(0, 4, POL_BLOCK, NOGATE, false, true, false));
    }
    w.dispatch(0, EP_INHERENT, Act { id: act_id(0, 1, 1), script: 0 });
    let n = 3 + (seed % 8) as u32;
    for k in 0..n {
        w.dispatch(0, [EP_INHERENT, EP_STORE_TRAIT, EP_DISPATCHER][k as usize % 3], Act { id: act_id(0, 1, k + 2), script: if mix(seed, k as u64) % 3 == 0 { 2 } else { 1 } });
    }
    let mut quiesced = w.ctx.gates[0].wait_parked(1);
    w.stop(0, c.stop_how);
    w.ctx.gates[0].open();
    if released.wait_at_least(1, 30) {
        // grace period: whatever (wrongly) still runs after the release gets the chance to show itself
        let mut last = w.ctx.log.now();
        for _ in 0..40 {
            if cfg!(miri) {
                for _ in 0..10 {
                    std::thread::yield_now();
                }
            } else {
                std::thread::sleep(std::time::Duration::from_micros(500));
            }
            let now = w.ctx.log.now();
            if now == last {
                break;
            }
            last = now;
        }
        w.mark(MARK_SETTLED, 0);
    } else {
        quiesced = false;
    }
    w.read(0);
    w.read(0);
    w.metrics(0);
    drop(subs);
    (w, quiesced)
}

/// The last handle is dropped (no stop()) while the reducer is parked inside the first action and more
/// accepted actions are queued. Every one of them is still reduced and notified.
fn execute_abandon(c: &ACfg, seed: u64) -> (W, bool) {
    let mut gated = Script::plain();
    gated.rgate = 0;
    let ctx = Ctx::new(ScriptSrc::Table(vec![gated, Script::plain()]), 1, seed, c.perturb, false);
    let mut w = W::new(ctx, vec![StoreCfg { policy: POL_BLOCK, cap: 16, n_red: c.n_red.max(1), n_mw: c.n_mw, name: "rsva".into(), ctor: 0 }]);
    let seen = Arc::new(Counter::new());
    let s1 = w.add_direct_counted(0, true, seen.clone());
    let s2 = w.add_direct(0, NOGATE, false, true, false);
    let n = 2 + (seed % 6) as u32;
    w.dispatch(0, EP_INHERENT, Act { id: act_id(0, 1, 1), script: 0 });
    for k in 0..n {
        w.dispatch(0, [EP_INHERENT, EP_STORE_TRAIT, EP_DISPATCHER][k as usize % 3], Act { id: act_id(0, 1, k + 2), script: 1 });
    }
    let parked = w.ctx.gates[0].wait_parked(1);
    w.mark(MARK_ABANDONED, 0);
    w.stores.clear(); // the harness' only handle
    w.ctx.gates[0].open();
    // quiescence: every action notified, or nothing moving any more
    let mut last = (w.ctx.log.now(), std::time::Instant::now());
    while seen.get() < n as u64 + 1 {
        std::thread::sleep(std::time::Duration::from_micros(if cfg!(miri) { 250_000 } else { 300 }));
        let now = w.ctx.log.now();
        if now != last.0 {
            last = (now, std::time::Instant::now());
        } else if last.1.elapsed().as_millis() as u64 >= 400 * if cfg!(miri) { 20 } else { 1 } {
            break;
        }
    }
    drop((s1, s2));
    (w, parked)
}

/// A subscriber panics inside on_notify of action k. Whatever the store does about it, get_state() must
/// not go back: a subscriber registered before the panicking one reads the state of action k inside its
/// callback, readers and the client read afterwards.
fn execute_sub_panic(c: &ACfg, seed: u64) -> (W, bool) {
    let ctx = Ctx::new(ScriptSrc::Table(vec![Script::plain()]), 1, seed, c.perturb, true);
    let w = W::new(ctx, vec![StoreCfg { policy: POL_BLOCK, cap: 16, n_red: c.n_red.max(1), n_mw: c.n_mw, name: "rsva".into(), ctor: 0 }]);
    let seen = Arc::new(Counter::new());
    let s2 = seen.clone();
    let first = w.add_direct_sub(0, true, |sub| {
        sub.read_wh = 1;
        sub.counter = Some(s2);
    });
    let k = 1 + (seed % 4) as u32;
    let panicker = w.add_direct_sub(0, true, |sub| {
        sub.hook = Some(Arc::new(move |_c: &Arc<Ctx>, _st: &St, a: &Act| {
            if id_seq(a.id) == k {
                std::panic::panic_any(PANIC_MARK);
            }
        }));
    });
    let pid = panicker.0;
    let stop_readers = AtomicBool::new(false);
    let mut quiesced = true;
    std::thread::scope(|sc| {
        let (w, stop_readers) = (&w, &stop_readers);
        let rh = std::thread::Builder::new().name("reader0".into()).spawn_scoped(sc, move || {
            let cap = if cfg!(miri) { 8 } else { 4000 };
            let mut n = 0;
            while !stop_readers.load(Ordering::Relaxed) && n < cap {
                w.read(0);
                w.ctx.perturb();
                n += 1;
            }
        }).unwrap();
        for j in 0..k {
            w.dispatch(0, EP_INHERENT, Act { id: act_id(0, 1, j + 1), script: 0 });
        }
        // the panicking subscriber has been entered for action k (the one before it has returned)
        quiesced = seen.wait_at_least(k as u64, 20) && wait_until(|| count_where(w, |e| e.k == K::SBeg && e.idx == pid && id_seq(e.a) == k) >= 1);
        w.read(0);
        // a few more actions: never reduced if the reducer context is gone, reduced otherwise
        for j in 0..(seed / 4 % 3) as u32 {
            w.dispatch(0, EP_INHERENT, Act { id: act_id(0, 1, k + 1 + j), script: 0 });
        }
        if cfg!(miri) {
            for _ in 0..30 {
                std::thread::yield_now();
            }
        } else {
            std::thread::sleep(std::time::Duration::from_micros(500));
        }
        w.read(0);
        w.read(0);
        stop_readers.store(true, Ordering::Relaxed);
        rh.join().unwrap();
        w.stop(0, STOP_STOP);
        w.read(0);
    });
    drop((first, panicker));
    (w, quiesced)
}

/// Build the world, run the clients, stop, return the world for the oracles.
pub fn execute(c: &ACfg, seed: u64) -> (W, bool) {
    if c.abandon {
        return execute_abandon(c, seed);
    }
    if c.sub_panic {
        return execute_sub_panic(c, seed);
    }
    if c.stop_timeout {
        return execute_timeout(c, seed);
    }
    let ctx = Ctx::new(ScriptSrc::Table(c.scripts.clone()), 1, seed, c.perturb, c.read_in_cb);
    let w = W::new(ctx, vec![StoreCfg { policy: c.policy, cap: c.cap, n_red: c.n_red, n_mw: c.n_mw, name: if c.ctor != 0 && c.default_name { "store".into() } else { "rsva".into() }, ctor: c.ctor }]);
    let mut subs = Vec::new();
    for i in 0..c.n_sub {
        let gate = if c.mid_phase == 2 && i == 0 { 0 } else { NOGATE };
        subs.push(w.add_direct(0, gate, false, true, i % 2 == 1));
    }
    let first_sub = if c.mid_phase == 2 { Some(subs.remove(0)) } else { None };
    let stop_readers = AtomicBool::new(false);
    let turn = AtomicU32::new(0);
    let n_prod = c.producers.len() as u32;
    let thunks: u64 = c.producers.iter().flatten().filter(|(_, ep)| *ep == EP_THUNK).count() as u64;
    let mut quiesced = true;
    std::thread::scope(|sc| {
        let mut hs = Vec::new();
        for (p, prog) in c.producers.iter().enumerate() {
            let w = &w;
            let turn = &turn;
            let regs: Vec<(usize, u8)> = c.runtime_reg.iter().filter(|(pp, _, _)| *pp == p).map(|(_, k, kind)| (*k, *kind)).collect();
            hs.push(std::thread::Builder::new().name(format!("prod{}", p + 1)).spawn_scoped(sc, move || {
                let mut keep_subs = Vec::new();
                for (k, (act, ep)) in prog.iter().enumerate() {
                    for (rk, kind) in &regs {
                        if *rk == k {
                            match kind {
                                0 => {
                                    w.add_reducer(0);
                                }
                                1 => {
                                    w.add_middleware(0);
                                }
                                _ => keep_subs.push(w.add_direct(0, NOGATE, false, false, false)),
                            }
                        }
                    }
                    if c.baton {
                        // strict alternation between producers: creates real-time ordered cross-thread pairs
                        let mut spins = 0u32;
                        while turn.load(Ordering::Acquire) % n_prod != p as u32 && spins < 2000 {
                            std::thread::yield_now();
                            spins += 1;
                        }
                    }
                    w.ctx.perturb();
                    w.dispatch(0, *ep, act.clone());
                    if c.baton {
                        turn.fetch_add(1, Ordering::AcqRel);
                    }
                }
                keep_subs
            }).unwrap());
        }
        let mut rh = Vec::new();
        for r in 0..c.n_readers {
            let w = &w;
            let stop_readers = &stop_readers;
            rh.push(std::thread::Builder::new().name(format!("reader{}", r)).spawn_scoped(sc, move || {
                let cap = if cfg!(miri) { 6 } else { 4000 };
                let mut n = 0;
                while !stop_readers.load(Ordering::Relaxed) && n < cap {
                    w.read(0);
                    w.ctx.perturb();
                    n += 1;
                }
            }).unwrap());
        }
        if c.sampler {
            let w = &w;
            let stop_readers = &stop_readers;
            rh.push(std::thread::Builder::new().name("sampler".into()).spawn_scoped(sc, move || {
                let cap = if cfg!(miri) { 4 } else { 2000 };
                let mut n = 0;
                while !stop_readers.load(Ordering::Relaxed) && n < cap {
                    w.metrics(0);
                    w.ctx.perturb();
                    n += 1;
                }
            }).unwrap());
        }
        let mut keep = Vec::new();
        if c.mid_phase != 0 {
            // wait for the pipeline to park, act, release (the gate stays open afterwards)
            let w = &w;
            let first_sub = first_sub;
            rh.push(std::thread::Builder::new().name("midphase".into()).spawn_scoped(sc, move || {
                if !w.ctx.gates[0].wait_parked(1) {
                    w.ctx.gates[0].open();
                    return;
                }
                if c.mid_phase == 3 {
                    // the middleware list is locked while a hook phase runs: these calls wait for it
                    std::thread::scope(|s2| {
                        s2.spawn(|| {
                            for _ in 0..50 {
                                std::thread::yield_now();
                            }
                            w.ctx.gates[0].open();
                        });
                        for _ in 0..3 {
                            w.add_middleware(0);
                        }
                    });
                } else if c.mid_phase == 1 {
                    // in the unmodified code these calls wait for the chain to finish (the lists are
                    // locked while they are walked); open the gate from another thread shortly after
                    std::thread::scope(|s2| {
                        s2.spawn(|| {
                            for _ in 0..50 {
                                std::thread::yield_now();
                            }
                            w.ctx.gates[0].open();
                        });
                        // enough pushes to outgrow the list's capacity (reallocation)
                        for _ in 0..4 {
                            w.add_reducer(0);
                        }
                        w.add_middleware(0);
                        let _k = w.add_direct(0, NOGATE, false, false, false);
                        std::mem::forget(_k);
                    });
                } else {
                    if let Some((id, sn)) = &first_sub {
                        w.unsubscribe(0, *id, sn.as_ref());
                    }
                    let _k = w.add_direct(0, NOGATE, false, false, false);
                    std::mem::forget(_k);
                    w.ctx.gates[0].open();
                }
            }).unwrap());
        }
        for h in hs {
            keep.push(h.join().unwrap());
        }
        // let client-submitted thunks run before the pool is taken away
        if thunks > 0 {
            quiesced = wait_until(|| count_kind(&w, K::DRet, EP_THUNK) >= thunks);
        }
        w.stop(0, c.stop_how);
        stop_readers.store(true, Ordering::Relaxed);
        for h in rh {
            h.join().unwrap();
        }
        w.read(0);
        w.read(0);
        w.metrics(0);
        drop(keep);
    });
    drop(subs);
    (w, quiesced)
}

pub fn count_kind(w: &W, k: K, idx: u32) -> u64 {
    let bufs = w.ctx.log.bufs.lock().unwrap();
    let mut n = 0;
    for (_, b) in bufs.iter() {
        n += b.lock().unwrap().iter().filter(|e| e.k == k && e.idx == idx).count() as u64;
    }
    n
}

pub fn count_where(w: &W, f: impl Fn(&Ev) -> bool) -> u64 {
    let bufs = w.ctx.log.bufs.lock().unwrap();
    let mut n = 0;
    for (_, b) in bufs.iter() {
        n += b.lock().unwrap().iter().filter(|e| f(e)).count() as u64;
    }
    n
}

/// poll a harness-side condition; false = gave up (inconclusive, never a violation)
pub fn wait_until(mut f: impl FnMut() -> bool) -> bool {
    let t0 = std::time::Instant::now();
    let mut i = 0u32;
    while !f() {
        i += 1;
        if i < 50 {
            std::thread::yield_now();
        } else {
            // (virtual sleeps are free under Miri, polls are not)
            std::thread::sleep(std::time::Duration::from_micros(if cfg!(miri) { 250_000 } else { 200 }));
        }
        if t0.elapsed().as_secs() >= 20 * CAP_SCALE {
            return false;
        }
    }
    true
}

pub fn run(seed: u64, tiny: bool, focus: &str) -> Outcome {
    let mut rng = Rng::new(seed);
    let c = gen(&mut rng, tiny, focus);
    let (w, quiesced) = execute(&c, seed);
    let h = Hist::from_world(&w);
    let mut v = Verdicts::default();
    if !quiesced {
        v.inconcl("*", "client thunks did not finish within the cap".into());
    }
    if c.sub_panic {
        c08(&h, 0, &mut v);
        return Outcome::new(describe(&c), h, v);
    }
    if c.abandon {
        c01(&h, 0, &mut v);
        c03(&h, 0, &mut v);
        c07(&h, 0, &mut v);
        return Outcome::new(describe(&c), h, v);
    }
    c01(&h, 0, &mut v);
    c02(&h, 0, &mut v);
    c03(&h, 0, &mut v);
    c07(&h, 0, &mut v);
    c08(&h, 0, &mut v);
    crate::oracle_m::c18(&h, &w, 0, &mut v);
    Outcome::new(describe(&c), h, v)
}

#[allow(dead_code)]
pub fn arc_unused(_: Arc<()>) {}
