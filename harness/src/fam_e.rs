//! Family E: effects. Feeds C11.

use crate::core::*;
use crate::hist::*;
use crate::json::J;
use crate::oracle_a::*;
use crate::script::*;
use crate::world::*;
use crate::Outcome;
use rs_store::Dispatcher;
use std::collections::{HashMap, HashSet};

#[derive(Clone, Debug)]
pub struct ECfg {
    pub cap: usize,
    pub n_red: u32,
    pub n_mw: u32,
    pub n_prod: usize,
    pub per_prod: usize,
    pub scripts: Vec<Script>,
    /// wait for every expected effect and follow-up before stop() (else: stop with a backlog)
    pub quiesce: bool,
    pub gated_effect: bool,
    pub client_tasks: u32,
    pub perturb: u8,
    /// more than a thousand effects pending at once (all parked or queued behind parked ones)
    pub flood: bool,
}

const S_FOLLOW_PLAIN: u32 = 0;
const S_FOLLOW_TASK: u32 = 1;
const MARK_GIVEUP: u32 = 900;
const MARK_GATE_OPEN: u32 = 6;
const MARK_QUIESCENT: u32 = 7;

pub fn gen(rng: &mut Rng, tiny: bool) -> ECfg {
    let n_red = rng.range(1, 4) as u32;
    let n_mw = rng.below(3) as u32;
    let gated_effect = rng.chance(1, 4);
    let mut scripts = vec![Script::plain(), Script::plain()];
    // follow-up scripts: 0 plain, 1 with a Task effect on reducer 0
    scripts[1].eff[0] = Some(EffSpec { kind: EK_TASK, follow_script: 0, n_follow: 0, panic: false, gate: NOGATE });
    for i in 0..8 {
        let mut sc = Script::plain();
        let mut gate_used = false;
        for r in 0..n_red.min(4) as usize {
            if rng.chance(3, 5) {
                let kind = rng.below(4) as u8;
                let gate = if gated_effect && i == 0 && !gate_used && kind != EK_ACTION {
                    gate_used = true;
                    1
                } else {
                    NOGATE
                };
                sc.eff[r] = Some(EffSpec {
                    kind,
                    follow_script: if rng.chance(1, 2) { S_FOLLOW_PLAIN } else { S_FOLLOW_TASK },
                    n_follow: if kind == EK_THUNK { rng.below(3) as u8 } else { 0 },
                    panic: gate == NOGATE && kind != EK_ACTION && rng.chance(1, 5),
                    gate,
                });
            }
        }
        if rng.chance(1, 5) {
            sc.keep = 0xff;
        }
        for m in 0..n_mw.min(3) as usize {
            if rng.chance(1, 4) {
                sc.mw_remove[m] = rng.below(8) as u8;
            }
            if rng.chance(1, 8) {
                sc.mw[m][1] = *rng.pick(&[V_DONE, V_BREAK, V_ERR]);
            }
            if rng.chance(1, 6) {
                sc.mw_insert[m] = true;
            }
        }
        scripts.push(sc);
    }
    let flood = !tiny && rng.chance(1, 60);
    if flood {
        // one producer, 1100 actions, each returning one Task effect that waits at the gate
        let mut sc = Script::plain();
        sc.eff[0] = Some(EffSpec { kind: EK_TASK, follow_script: 0, n_follow: 0, panic: false, gate: 1 });
        scripts.truncate(2);
        scripts.push(sc);
        return ECfg { cap: 16, n_red, n_mw: 0, n_prod: 1, per_prod: 1100, scripts, quiesce: true, gated_effect: true, client_tasks: 0, perturb: 0, flood };
    }
    ECfg {
        flood,
        cap: *rng.pick(&[1usize, 2, 5, 16]),
        n_red,
        n_mw,
        n_prod: if tiny { rng.range(1, 2) } else { rng.range(1, 3) } as usize,
        per_prod: if tiny { rng.range(1, 2) } else { rng.range(1, 12) } as usize,
        scripts,
        quiesce: rng.chance(3, 4),
        gated_effect,
        client_tasks: rng.below(4) as u32,
        perturb: rng.below(3) as u8,
    }
}

pub fn describe(c: &ECfg) -> J {
    let eff = |sc: &Script| -> String {
        (0..4)
            .map(|r| match sc.eff[r] {
                None => "-".to_string(),
                Some(e) => format!("{}{}{}{}", ["Action", "Task", "Thunk", "Function"][e.kind as usize], if e.kind == EK_THUNK { format!("x{}", e.n_follow) } else { String::new() }, if e.panic { "!" } else { "" }, if e.gate != NOGATE { "@gate" } else { "" }),
            })
            .collect::<Vec<_>>()
            .join(",")
    };
    J::obj(vec![
        ("family", J::s("E")),
        ("capacity", J::U(c.cap as u64)),
        ("reducers", J::U(c.n_red as u64)),
        ("middlewares", J::U(c.n_mw as u64)),
        ("producers", J::s(format!("{} x {}", c.n_prod, c.per_prod))),
        ("effect_scripts", J::A(c.scripts.iter().skip(2).map(|s| J::s(format!("[{}] remove={:?}", eff(s), &s.mw_remove[..c.n_mw as usize]))).collect())),
        ("mode", J::s(if c.quiesce { "stop after all effects and follow-ups were observed" } else { "stop right after the producers returned (backlog)" })),
        ("gated_effect", J::B(c.gated_effect)),
        ("flood_of_pending_effects", J::B(c.flood)),
        ("client_tasks", J::U(c.client_tasks as u64)),
    ])
}

/// effects of `sc` that survive the before_effect hooks of `n_mw` middlewares (model used by the
/// controller to know what to wait for; the oracle recomputes it from the hooks actually called)
const INSERTED: EffSpec = EffSpec { kind: EK_TASK, follow_script: 0, n_follow: 0, panic: false, gate: NOGATE };

/// (tag, spec): tag = reducer index for a reducer's effect, 0xE0 + m for one inserted by middleware m
fn surviving(sc: &Script, n_red: u32, n_mw: u32) -> Vec<(u32, EffSpec)> {
    let mut l: Vec<(u32, EffSpec)> = (0..n_red.min(4)).filter_map(|r| sc.eff[r as usize].map(|e| (r, e))).collect();
    for m in 0..n_mw.min(3) as usize {
        let mask = sc.mw_remove[m];
        let mut pos = 0;
        l.retain(|_| {
            let keep = pos >= 8 || mask & (1 << pos) == 0;
            pos += 1;
            keep
        });
        if sc.mw_insert[m] {
            l.insert(0, (0xE0 + m as u32, INSERTED));
        }
        if sc.mw[m][1] == V_BREAK {
            break;
        }
    }
    l
}

pub fn execute(c: &ECfg, seed: u64) -> W {
    let ctx = Ctx::new_opts(ScriptSrc::Table(c.scripts.clone()), 3, seed, c.perturb, false, true);
    let w = W::new(ctx, vec![StoreCfg { policy: POL_BLOCK, cap: c.cap, n_red: c.n_red, n_mw: c.n_mw, name: "rsve".into(), ctor: 0 }]);
    let released = std::sync::Arc::new(Counter::new());
    let r2 = released.clone();
    let keep = w.add_direct_sub(0, true, |sub| sub.unsub_counter = Some(r2));
    // programs and what they are expected to cause
    let mut rng = Rng::new(mix(seed, 555));
    let mut progs: Vec<Vec<Act>> = Vec::new();
    let mut exp_eff = 0u64; // effect bodies with a run event (Task/Thunk/Function)
    let mut exp_red = 0u64; // actions entering reducer 0
    for p in 0..c.n_prod {
        let mut v = Vec::new();
        for k in 0..c.per_prod {
            let script = 2 + rng.below(c.scripts.len() as u64 - 2) as u32;
            let sc = &c.scripts[script as usize];
            exp_red += 1;
            for (_, e) in surviving(sc, c.n_red, c.n_mw) {
                let follows = match e.kind {
                    EK_ACTION => 1,
                    EK_THUNK => {
                        exp_eff += 1;
                        if e.panic { e.n_follow as u64 } else { e.n_follow as u64 }
                    }
                    _ => {
                        exp_eff += 1;
                        0
                    }
                };
                exp_red += follows;
                if e.follow_script == S_FOLLOW_TASK {
                    exp_eff += follows; // each follow-up issues one Task (no middleware removes it: mask 0)
                }
            }
            v.push(Act { id: act_id(0, p as u32 + 1, k as u32 + 1), script });
        }
        progs.push(v);
    }
    exp_eff += c.client_tasks as u64;
    let give_up = |what: u64| {
        w.mark(MARK_GIVEUP, what);
        w.ctx.gates[2].wait();
    };
    std::thread::scope(|sc| {
        let mut hs = Vec::new();
        for (p, prog) in progs.iter().enumerate() {
            let w = &w;
            hs.push(std::thread::Builder::new().name(format!("prod{}", p + 1)).spawn_scoped(sc, move || {
                for act in prog {
                    w.ctx.perturb();
                    w.dispatch(0, (act.id % 3) as u32, act.clone());
                }
            }).unwrap());
        }
        // client-side tasks / thunks submitted while the store is running
        for k in 0..c.client_tasks {
            let id = act_id(0, 60, k + 1);
            let cx = w.ctx.clone();
            w.ctx.ev(K::TInv, 0, id, 1, 0, 0, 0);
            if k % 2 == 0 {
                Dispatcher::dispatch_task(&w.stores[0], Box::new(move || {
                    cx.ev(K::EBeg, 0, id, 0xfe, 0, 0, 0);
                    cx.c_eff.add(1);
                    cx.perturb();
                    cx.ev(K::EEnd, 0, id, 0xfe, 0, 0, 0);
                }));
            } else {
                Dispatcher::dispatch_thunk(&w.stores[0], Box::new(move |_d| {
                    cx.ev(K::EBeg, 0, id, 0xfd, 0, 0, 0);
                    cx.c_eff.add(1);
                    cx.perturb();
                    cx.ev(K::EEnd, 0, id, 0xfd, 0, 0, 0);
                }));
            }
            w.ctx.ev(K::TRet, 0, id, 1, 0, 0, 0);
        }
        for h in hs {
            h.join().unwrap();
        }
        if c.quiesce {
            if c.gated_effect {
                // a parked (slow) effect must not delay later *actions*: every client action gets
                // reduced while the gate is still closed (other effects may legitimately queue behind
                // the parked one when the pool is small, so they are not waited for here)
                let n_client = (c.n_prod * c.per_prod) as u64;
                let gated_runs = 0u64;
                let ok = crate::fam_a::wait_until(|| {
                    let bufs = w.ctx.log.bufs.lock().unwrap();
                    let mut n = 0u64;
                    for (_, b) in bufs.iter() {
                        n += b.lock().unwrap().iter().filter(|e| e.k == K::REnd && e.idx == 0 && id_gen(e.a) == 0).count() as u64;
                    }
                    n >= n_client
                });
                if !ok {
                    give_up(1);
                }
                w.mark(MARK_GATE_OPEN, gated_runs);
                w.ctx.gates[1].open();
            }
            if !w.ctx.c_red.wait_at_least(exp_red, 20) || !w.ctx.c_eff.wait_at_least(exp_eff, 20) {
                give_up(2);
            }
            w.mark(MARK_QUIESCENT, 0);
        } else {
            w.ctx.gates[1].open();
        }
        let ms = w.stop(0, STOP_STOP);
        if ms >= 2500 {
            // every gate was open before stop() was invoked, yet it ran into its timeout: let whatever
            // is still going on finish (the loop's last act is releasing the subscribers)
            released.wait_at_least(1, 20);
        }
        if cfg!(miri) {
            for _ in 0..20 {
                std::thread::yield_now();
            }
        } else {
            std::thread::sleep(std::time::Duration::from_micros(300));
        }
        w.read(0);
        w.metrics(0);
    });
    drop(keep);
    w
}

fn run_key(tag: u32, e: &EffSpec) -> u32 {
    if tag >= 0xE0 {
        tag
    } else {
        (tag << 4) | e.kind as u32
    }
}

pub fn c11(h: &Hist, s: u8, v: &mut Verdicts) {
    let sh = &h.st[s as usize];
    v.evaluated.insert("C11");
    if stop_timed_out(h, s) {
        // in this family nothing is parked or slow once stop() is invoked: a stop() that gives up and leaves
        // work to run after it has returned is a violation (natively; Miri's virtual clock is not a stopwatch)
        if let Some(sr) = first_stop(h, s) {
            let late = h.evs.iter().find(|e| e.store == s && e.seq > sr.ret && matches!(e.k, K::RBeg | K::MBeg | K::SBeg | K::EBeg));
            if let (Some(e), false, true) = (late, cfg!(miri), sr.ret != INF) {
                v.fail("C11", format!("store {}: stop() gave up after {} ms (its timeout) although no effect or callback was parked or slow, and work accepted before it went on after it had returned: {} for {} at seq {} (stop() returned at seq {})", s, sr.ms, e.k.name(), id_str(e.a), e.seq, sr.ret));
                return;
            }
        }
        v.inconcl("C11", "stop() hit its timeout".into());
        return;
    }
    if h.evs.iter().any(|e| e.k == K::Mark && e.idx == MARK_GIVEUP) {
        v.inconcl("C11", "controller gave up waiting".into());
        return;
    }
    let sr = match first_stop(h, s) {
        Some(x) => x.clone(),
        None => return,
    };
    let quiescent = h.evs.iter().any(|e| e.k == K::Mark && e.idx == MARK_QUIESCENT);
    let f = fold(h, s, v, false);
    // run events per (action, idx)
    let mut runs: HashMap<(u32, u32), Vec<&Ev>> = HashMap::new();
    let last_rc = sh.rc.last().map(|&i| h.evs[i].seq).unwrap_or(0);
    for e in h.evs.iter().filter(|e| e.k == K::EBeg && e.store == s) {
        runs.entry((e.a, e.idx)).or_default().push(e);
        if e.seq > sr.ret {
            v.fail("C11", format!("store {}: an effect of {} (kind/idx {:#x}) started at seq {} after stop() had returned at seq {}", s, id_str(e.a), e.idx, e.seq, sr.ret));
        }
        // the worker that ran the reducer loop returns to the pool once the loop has ended and may then
        // run queued effects: only a run *before the last reducer-context event* is in the reducer context
        if sh.rc_tids.contains(&e.tid) && e.seq < last_rc {
            v.fail("C11", format!("store {}: an effect of {} ran in the reducer context (thread t{} '{}', seq {})", s, id_str(e.a), e.tid, h.names.get(e.tid as usize).cloned().unwrap_or_default(), e.seq));
        }
    }
    // reducer-context events in seq order, to find "the first reducer-context event after a's effect phase"
    // (on_error calls belong to the hook phase that raised them, not to what follows it)
    let rc_seqs: Vec<u64> = sh.rc.iter().map(|&i| &h.evs[i]).filter(|e| e.k != K::MErr).map(|e| e.seq).collect();
    let pos_in_t: HashMap<u32, usize> = sh.taken.iter().enumerate().map(|(i, a)| (*a, i)).collect();
    let mut kinds_seen: HashSet<u8> = HashSet::new();
    let mut follow_reduced = 0u64;
    let mut multi = false;
    let mut removed_n = 0u64;
    for a in &sh.taken {
        let ar = &sh.acts[a];
        if ar.reduces.iter().any(|r| r.end == INF) {
            continue;
        }
        // model of the effect list (tag = reducer index, or 0xE0 + m for an effect a middleware inserted)
        let mut list: Vec<(u32, EffSpec)> = Vec::new();
        for r in &ar.reduces {
            if (r.ridx as usize) < 4 {
                if let Some(e) = h.ctx.script(r.z).eff[r.ridx as usize] {
                    list.push((r.ridx, e));
                }
            }
        }
        let issued = list.len();
        let mut removed: Vec<(u32, EffSpec)> = Vec::new();
        let mut phase_end = ar.reduces.last().map(|r| r.end).unwrap_or(ar.first);
        let sc_a = ar.reduces.first().map(|r| h.ctx.script(r.z));
        for m in ar.mws.iter().filter(|m| m.hook == 1) {
            if m.y != list.len() as u64 {
                v.fail("C11", format!("store {}: before_effect of middleware {} saw {} effects for {} but {} were left by the reducers and earlier hooks", s, m.midx, m.y, id_str(*a), list.len()));
            }
            if let (Some(sc), true) = (sc_a.as_ref(), (m.midx as usize) < 3) {
                let mask = sc.mw_remove[m.midx as usize];
                let mut pos = 0;
                let mut kept = Vec::new();
                for x in list.drain(..) {
                    if pos < 8 && mask & (1 << pos) != 0 {
                        removed.push(x);
                    } else {
                        kept.push(x);
                    }
                    pos += 1;
                }
                list = kept;
                if sc.mw_insert[m.midx as usize] {
                    list.insert(0, (0xE0 + m.midx, INSERTED));
                }
            }
            if m.end != INF {
                phase_end = phase_end.max(m.end);
            }
        }
        if issued >= 2 {
            multi = true;
        }
        removed_n += removed.len() as u64;
        let after = rc_seqs.iter().find(|x| **x > phase_end).copied();
        let submitted_before_stop = matches!(after, Some(x) if x < sr.inv);
        for (ridx, e) in &removed {
            if e.kind != EK_ACTION {
                let n = runs.get(&(*a, run_key(*ridx, e))).map(|x| x.len()).unwrap_or(0);
                if n > 0 {
                    v.fail("C11", format!("store {}: effect {} of {} was removed by a before_effect hook but ran {} time(s)", s, ridx, id_str(*a), n));
                }
            } else if sh.acts.contains_key(&follow_id(*a, *ridx, 0)) {
                v.fail("C11", format!("store {}: Effect::Action {} of {} was removed by a before_effect hook but its action was reduced", s, ridx, id_str(*a)));
            }
        }
        for (ridx, e) in &list {
            kinds_seen.insert(e.kind);
            if e.kind != EK_ACTION {
                let n = runs.get(&(*a, run_key(*ridx, e))).map(|x| x.len()).unwrap_or(0);
                if n == 0 {
                    if submitted_before_stop || quiescent {
                        v.fail(
                            "C11",
                            format!("store {}: effect {} ({}) of {} never ran although the reducer had moved on (seq {:?}) before stop() was invoked (seq {})", s, ridx, ["Action", "Task", "Thunk", "Function"][e.kind as usize], id_str(*a), after, sr.inv),
                        );
                    } else {
                        v.known(
                            "C11",
                            "effect-skipped-after-stop",
                            format!("store {}: effect {} ({}) of accepted action {} never ran: stop() was invoked (seq {}) before the reducer got past that action's effect phase (ended seq {})", s, ridx, ["Action", "Task", "Thunk", "Function"][e.kind as usize], id_str(*a), sr.inv, phase_end),
                        );
                    }
                } else if n > 1 {
                    v.fail("C11", format!("store {}: effect {} of {} ran {} times", s, ridx, id_str(*a), n));
                }
            }
            // follow-up actions
            let follows: Vec<u32> = match e.kind {
                EK_ACTION => vec![follow_id(*a, *ridx, 0)],
                EK_THUNK => (0..e.n_follow as u32).map(|k| follow_id(*a, *ridx, k)).collect(),
                _ => vec![],
            };
            for fid in follows {
                match pos_in_t.get(&fid) {
                    Some(&p) => {
                        follow_reduced += 1;
                        if p <= pos_in_t[a] {
                            v.fail("C11", format!("store {}: follow-up {} was reduced before the action {} that produced it", s, id_str(fid), id_str(*a)));
                        }
                        if !f.reduced.contains(&fid) && !sh.acts[&fid].vetoed() {
                            v.fail("C11", format!("store {}: follow-up {} was taken but not reduced", s, id_str(fid)));
                        }
                    }
                    None => {
                        // allowed only if the store was closed in the meantime
                        let rejected = h.disp.get(&fid).map(|d| d.ok == Some(false)).unwrap_or(false);
                        if quiescent && !rejected {
                            v.fail("C11", format!("store {}: follow-up {} of {} was never reduced although the store was still open", s, id_str(fid), id_str(*a)));
                        }
                        if let Some(d) = h.disp.get(&fid) {
                            if d.ok == Some(true) {
                                v.fail("C11", format!("store {}: follow-up {} was accepted by the dispatcher a thunk received but never reduced in this store (dispatcher of another store?)", s, id_str(fid)));
                            }
                        }
                    }
                }
            }
        }
    }
    // client-submitted tasks/thunks while running
    for e in h.evs.iter().filter(|e| e.k == K::TInv && e.store == s && e.idx == 1) {
        let idx = if id_seq(e.a) % 2 == 1 { 0xfe } else { 0xfd };
        let n = runs.get(&(e.a, idx)).map(|x| x.len()).unwrap_or(0);
        let tret = h.evs.iter().find(|x| x.k == K::TRet && x.a == e.a && x.idx == 1).map(|x| x.seq).unwrap_or(INF);
        if n != 1 && tret < sr.inv {
            v.fail("C11", format!("store {}: client {} {} submitted while the store was running ran {} times", s, if idx == 0xfe { "task" } else { "thunk" }, id_str(e.a), n));
        }
        if let Some(r) = runs.get(&(e.a, idx)) {
            if r.iter().any(|x| x.tid == e.tid) {
                v.fail("C11", format!("store {}: client task {} ran on the submitting thread", s, id_str(e.a)));
            }
        }
    }
    // a parked effect does not delay later actions
    if let Some(m) = h.evs.iter().find(|e| e.k == K::Mark && e.idx == MARK_GATE_OPEN) {
        if let Some(gw) = h.evs.iter().find(|e| e.k == K::GateWait && e.idx == 1) {
            let n = sh.rc.iter().filter(|&&i| h.evs[i].k == K::RBeg && h.evs[i].seq > gw.seq && h.evs[i].seq < m.seq).count() as u64;
            v.count("c11.reduces_while_an_effect_was_parked", n);
        }
    }
    v.count("c11.effect_runs_observed", runs.values().map(|x| x.len() as u64).sum());
    v.count("c11.effects_removed_by_middleware", removed_n);
    v.count("c11.followups_reduced", follow_reduced);
    v.count("c11.panicking_effects", h.evs.iter().filter(|e| e.k == K::EBeg && e.r == 1).count() as u64);
    if kinds_seen.len() >= 2 && follow_reduced >= 1 && multi {
        v.nontrivial.insert("C11");
    }
}

pub fn run(seed: u64, tiny: bool, _focus: &str) -> Outcome {
    let mut rng = Rng::new(seed);
    let c = gen(&mut rng, tiny);
    let w = execute(&c, seed);
    let h = Hist::from_world(&w);
    let mut v = Verdicts::default();
    c11(&h, 0, &mut v);
    c01(&h, 0, &mut v);
    crate::oracle_m::c18(&h, &w, 0, &mut v);
    Outcome::new(describe(&c), h, v)
}
