//! Family I: selector enumeration. Every sequence of selected values over {0,1,2} up to length 9 is
//! fed to a real SelectorSubscriber; callbacks must be the sequence with consecutive duplicates
//! removed, each with the action that caused it; the same with an output type whose equality is a
//! tolerance comparison (not transitive). Feeds C16.

use crate::hist::*;
use crate::json::J;
use crate::script::*;
use crate::Outcome;
use rs_store::{SelectorSubscriber, Subscriber};
use std::sync::{Arc, Mutex};

pub fn run(index: u64, tiny: bool) -> Outcome {
    let len = (index % 9 + 1) as u32;
    let len = if tiny { len.min(3) } else { len };
    let total = 3u64.pow(len);
    let mut v = Verdicts::default();
    v.evaluated.insert("C16");
    let mut with_repeat_and_change = 0u64;
    let mut drifting = 0u64;
    let mut first_bad: Option<String> = None;
    let mut sample = Vec::new();
    for n in 0..total {
        let mut seq = Vec::with_capacity(len as usize);
        let mut x = n;
        for _ in 0..len {
            seq.push((x % 3) as u8);
            x /= 3;
        }
        let got: Arc<Mutex<Vec<(u8, u32)>>> = Arc::new(Mutex::new(Vec::new()));
        let g2 = got.clone();
        let sub = SelectorSubscriber::new(SelSelector, move |val: u8, a: Act| g2.lock().unwrap().push((val, a.id)));
        let mut st = St::initial(0);
        let mut exp: Vec<(u8, u32)> = Vec::new();
        for (k, val) in seq.iter().enumerate() {
            let act = Act { id: act_id(0, 1, k as u32 + 1), script: 0 };
            st.sel = *val;
            st.steps += 1;
            <SelectorSubscriber<St, Act, SelSelector, u8> as Subscriber<St, Act>>::on_notify(&sub, &st, &act);
            if exp.last().map(|l| l.0) != Some(*val) {
                exp.push((*val, act.id));
            }
        }
        // the same sequence through an output type with a tolerance equality (0~1, 1~2, 0!~2): a value is
        // delivered exactly when it differs from the value last *delivered*
        let gotn: Arc<Mutex<Vec<(u8, u32)>>> = Arc::new(Mutex::new(Vec::new()));
        let g3 = gotn.clone();
        let subn = SelectorSubscriber::new(NearSelector, move |val: Near, a: Act| g3.lock().unwrap().push((val.0, a.id)));
        let mut stn = St::initial(0);
        let mut expn: Vec<(u8, u32)> = Vec::new();
        for (k, val) in seq.iter().enumerate() {
            let act = Act { id: act_id(0, 1, k as u32 + 1), script: 0 };
            stn.sel = *val;
            stn.steps += 1;
            <SelectorSubscriber<St, Act, NearSelector, Near> as Subscriber<St, Act>>::on_notify(&subn, &stn, &act);
            if expn.last().map(|l| Near(l.0) != Near(*val)).unwrap_or(true) {
                expn.push((*val, act.id));
            }
        }
        let gotn = gotn.lock().unwrap().clone();
        if gotn != expn && first_bad.is_none() {
            first_bad = Some(format!("selected values {:?} with a tolerance equality (|a-b| <= 1): callbacks (value, action#) {:?}, expected {:?}", seq, gotn.iter().map(|x| (x.0, id_seq(x.1))).collect::<Vec<_>>(), expn.iter().map(|x| (x.0, id_seq(x.1))).collect::<Vec<_>>()));
        }
        if seq.windows(3).any(|w| w == [0, 1, 2] || w == [2, 1, 0]) {
            drifting += 1;
        }
        let got = got.lock().unwrap().clone();
        if got != exp && first_bad.is_none() {
            first_bad = Some(format!("selected values {:?}: callbacks (value, action#) {:?}, expected {:?}", seq, got.iter().map(|x| (x.0, id_seq(x.1))).collect::<Vec<_>>(), exp.iter().map(|x| (x.0, id_seq(x.1))).collect::<Vec<_>>()));
        }
        let rep = seq.windows(2).any(|w| w[0] == w[1]);
        let chg = seq.windows(2).any(|w| w[0] != w[1]);
        if rep && chg {
            with_repeat_and_change += 1;
        }
        if sample.len() < 2 && rep && chg {
            sample.push(J::s(format!("{:?} -> {:?}", seq, got.iter().map(|x| x.0).collect::<Vec<_>>())));
        }
    }
    if let Some(b) = first_bad {
        v.fail("C16", format!("SelectorSubscriber: {}", b));
    }
    v.count("c16.enumerated_sequences", total);
    v.count("c16.enumerated_with_repeat_and_change", with_repeat_and_change);
    v.count("c16.enumerated_drifting_under_tolerance_equality", drifting);
    if with_repeat_and_change > 0 || len <= 2 {
        v.nontrivial.insert("C16");
    }
    let desc = J::obj(vec![("family", J::s("I")), ("sequence_length", J::U(len as u64)), ("sequences", J::U(total)), ("samples", J::A(sample))]);
    Outcome { desc, h: None, v, fp_override: Some(0x1000 + len as u64) }
}
