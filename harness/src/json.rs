//! Minimal JSON value + writer (no external crates are available offline for the Miri/TSan builds).

use std::collections::BTreeMap;
use std::fmt::Write;

#[derive(Clone, Debug)]
pub enum J {
    Null,
    B(bool),
    I(i64),
    U(u64),
    S(String),
    A(Vec<J>),
    O(Vec<(String, J)>),
}

impl J {
    pub fn s(x: impl Into<String>) -> J {
        J::S(x.into())
    }
    pub fn obj(kv: Vec<(&str, J)>) -> J {
        J::O(kv.into_iter().map(|(k, v)| (k.to_string(), v)).collect())
    }
    pub fn from_map(m: &BTreeMap<String, u64>) -> J {
        J::O(m.iter().map(|(k, v)| (k.clone(), J::U(*v))).collect())
    }
    pub fn write(&self, out: &mut String) {
        match self {
            J::Null => out.push_str("null"),
            J::B(b) => out.push_str(if *b { "true" } else { "false" }),
            J::I(i) => {
                let _ = write!(out, "{}", i);
            }
            J::U(u) => {
                let _ = write!(out, "{}", u);
            }
            J::S(s) => {
                out.push('"');
                for c in s.chars() {
                    match c {
                        '"' => out.push_str("\\\""),
                        '\\' => out.push_str("\\\\"),
                        '\n' => out.push_str("\\n"),
                        '\r' => out.push_str("\\r"),
                        '\t' => out.push_str("\\t"),
                        c if (c as u32) < 0x20 => {
                            let _ = write!(out, "\\u{:04x}", c as u32);
                        }
                        c => out.push(c),
                    }
                }
                out.push('"');
            }
            J::A(xs) => {
                out.push('[');
                for (i, x) in xs.iter().enumerate() {
                    if i > 0 {
                        out.push(',');
                    }
                    x.write(out);
                }
                out.push(']');
            }
            J::O(kv) => {
                out.push('{');
                for (i, (k, v)) in kv.iter().enumerate() {
                    if i > 0 {
                        out.push(',');
                    }
                    J::S(k.clone()).write(out);
                    out.push(':');
                    v.write(out);
                }
                out.push('}');
            }
        }
    }
    pub fn to_string(&self) -> String {
        let mut s = String::new();
        self.write(&mut s);
        s
    }
}
