//! Family D: subscription lifecycle. Direct / selector / channeled subscribers and iterators are
//! added and removed while a stream is running; each channeled / selector / iterator subscription
//! has a direct twin registered right after it. Feeds C09 C10 C14 C16.

use crate::core::*;
use crate::hist::*;
use crate::json::J;
use crate::oracle_a::*;
use crate::script::*;
use crate::world::*;
use crate::Outcome;
use std::collections::{HashMap, HashSet};
use std::sync::Arc;

#[derive(Clone, Debug)]
pub struct Actor {
    pub kind: u8,
    pub at_build: bool,
    pub start_after: u64,
    pub unsub_after: Option<u64>,
    pub double_unsub: bool,
    pub cap: usize,
    pub pol: u8,
    pub default_api: bool,
    /// channeled: the subscriber is slow (a backlog builds up in its channel)
    pub slow: bool,
}

#[derive(Clone, Debug)]
pub struct DCfg {
    pub policy: u8,
    pub cap: usize,
    pub n_red: u32,
    pub n_prod: usize,
    pub per_prod: usize,
    pub scripts: Vec<Script>,
    pub actors: Vec<Actor>,
    pub stall: Option<(usize, u8)>,
    pub perturb: u8,
    /// iterator consumer pauses this long once stop() has been invoked (ms; 0 = never)
    pub slow_consumer_ms: u64,
    /// a channeled subscriber's callback unsubscribes another channeled subscriber
    pub cross_unsub: Option<(usize, u8, u32)>,
    /// long stall (ms) while a BlockOnFull channeled subscriber is parked and its channel is full
    pub long_stall_ms: u64,
    /// no whole-run sentinel subscriber: the subscriber list can become empty during the run
    pub no_sentinel: bool,
    /// the only subscriber (a parked channeled one) is being unsubscribed while another thread registers
    /// a new subscriber; actions dispatched afterwards must reach the new one
    pub lone: bool,
    /// (k, rounds): per round k short-lived subscribers are registered, then one that stays; the k are
    /// unsubscribed by k threads released together (removal of different subscribers racing each other)
    pub burst: Option<(usize, usize)>,
    /// the stalled drop-policy subscriber stays parked until this long after stop() was invoked (ms; 0: the
    /// gate opens before stop()): stop() has to wait for a subscriber that needs a while to drain
    pub stall_through_stop_ms: u64,
    /// Some(with_channeled): a subscriber's on_unsubscribe panics inside unsubscribe() (the caller catches
    /// it), nothing is dispatched afterwards, then the store is stopped: everybody else is still released
    pub poison: Option<bool>,
    /// one SelectorSubscriber object is notified by this many threads at once (as when it is registered with
    /// several stores); every thread presents the same sequence of values in lock step
    pub sel_race: Option<usize>,
    /// an unread, empty iterator is dropped while another thread's unsubscribe() is parked inside
    /// on_unsubscribe (the subscriber list is busy); afterwards actions flow to a second, live iterator
    pub quiet_drop: bool,
}

pub fn gen(rng: &mut Rng, tiny: bool, focus: &str) -> DCfg {
    let n_prod = if tiny { rng.range(1, 2) } else { rng.range(1, 4) } as usize;
    let per_prod = if tiny { rng.range(1, 3) } else { rng.range(2, 30) } as usize;
    let total = (n_prod * per_prod) as u64;
    let mut scripts = Vec::new();
    for _ in 0..8 {
        let mut sc = Script::plain();
        if rng.chance(1, 4) {
            sc.keep = 0xff;
        }
        sc.sel = match rng.below(5) {
            0 => 255,
            x => (x % 3) as u8,
        };
        scripts.push(sc);
    }
    let n_actors = if tiny { rng.range(1, 2) } else { rng.range(1, 4) };
    let mut actors = Vec::new();
    for _ in 0..n_actors {
        let kind = match focus {
            "C09" => *rng.pick(&[0u8, 0, 0, 1, 1, 2]),
            "C10" => *rng.pick(&[1u8, 1, 1, 0]),
            "C14" => *rng.pick(&[3u8, 3, 0]),
            "C16" => *rng.pick(&[2u8, 2, 0]),
            _ => rng.below(4) as u8,
        };
        let at_build = rng.chance(1, 2);
        let start_after = if at_build { 0 } else { rng.below(total) };
        let unsub_after = if (kind <= 1 && rng.chance(2, 3)) || (kind == 2 && rng.chance(1, 3)) { Some(if rng.chance(1, 3) { total } else { rng.range(start_after, total) }) } else { None };
        actors.push(Actor { kind, at_build, start_after, unsub_after, double_unsub: rng.chance(1, 3), cap: rng.range(1, 4) as usize, pol: rng.below(3) as u8, default_api: rng.chance(1, 8), slow: rng.chance(1, 3) });
        // capacity 0 (a rendezvous channel) under the blocking policy: same random draws as before, one
        // twelfth of the blocking capacity-4 actors are turned into capacity-0 ones
        if let Some(a) = actors.last_mut() {
            if a.kind == 1 && a.pol == POL_BLOCK && a.cap == 4 && a.double_unsub && !a.default_api {
                a.cap = 0;
            }
        }
    }
    // at most one iterator per scenario keeps the rendezvous channels from serialising everything
    let mut seen_iter = false;
    for a in actors.iter_mut() {
        if a.kind == 3 {
            if seen_iter {
                a.kind = 0;
            }
            seen_iter = true;
        }
    }
    let stall = if (focus == "C10" && rng.chance(1, 2)) || rng.chance(1, 8) { Some((rng.range(1, 3) as usize, rng.below(3) as u8)) } else { None };
    let has_iter = actors.iter().any(|a| a.kind == 3);
    let slow_consumer_ms = if !has_iter || stall.is_some() {
        0
    } else if cfg!(miri) {
        *rng.pick(&[0u64, 1500, 3500])
    } else if !tiny && rng.chance(1, if focus == "C14" { 300 } else { 900 }) {
        *rng.pick(&[300u64, 700, 1300, 3300])
    } else {
        0
    };
    let cross_unsub = if slow_consumer_ms == 0 && ((focus == "C10" && rng.chance(1, 3)) || rng.chance(1, 10)) { Some((rng.range(1, 3) as usize, rng.below(3) as u8, rng.range(1, 5) as u32)) } else { None };
    let long_stall_ms = match stall {
        Some((_, POL_BLOCK)) if cfg!(miri) => 40_000,
        Some((_, POL_BLOCK)) if !tiny && rng.chance(1, 300) => *rng.pick(&[1100u64, 2300, 3600]),
        _ => 0,
    };
    DCfg {
        policy: if stall.is_some() || cross_unsub.is_some() || rng.chance(5, 6) { POL_BLOCK } else { rng.range(1, 2) as u8 },
        cap: *rng.pick(&[1usize, 2, 5, 16]),
        n_red: rng.range(1, 2) as u32,
        n_prod,
        per_prod,
        scripts,
        actors,
        stall,
        perturb: rng.below(3) as u8,
        slow_consumer_ms,
        cross_unsub,
        long_stall_ms,
        no_sentinel: rng.chance(1, 3),
        lone: rng.chance(1, 12),
        stall_through_stop_ms: match stall {
            Some((_, p)) if p != POL_BLOCK && (cfg!(miri) || !tiny) && rng.chance(1, if cfg!(miri) { 2 } else { 12 }) => *rng.pick(&[700u64, 900, 1400]),
            _ => 0,
        },
        quiet_drop: (focus == "C14" && rng.chance(1, 8)) || rng.chance(1, 30),
        sel_race: if (focus == "C16" && rng.chance(1, 8)) || rng.chance(1, 40) { Some(rng.range(2, 4) as usize) } else { None },
        poison: if rng.chance(1, 16) { Some(rng.chance(2, 3)) } else { None },
        burst: if rng.chance(1, 10) { Some((rng.range(2, 4) as usize, if tiny { rng.range(1, 2) } else { rng.range(2, 12) } as usize)) } else { None },
    }
}

pub fn describe(c: &DCfg) -> J {
    J::obj(vec![
        ("family", J::s("D")),
        ("policy", J::s(POL_NAMES[c.policy as usize])),
        ("capacity", J::U(c.cap as u64)),
        ("reducers", J::U(c.n_red as u64)),
        ("producers", J::s(format!("{} x {}", c.n_prod, c.per_prod))),
        (
            "actors",
            J::A(c.actors
                .iter()
                .map(|a| {
                    J::s(format!(
                        "{}{} start_after={} unsub_after={:?}{} {}",
                        ["direct", "channeled", "selector", "iterator"][a.kind as usize],
                        if a.kind == 1 { format!("(cap {}, {})", a.cap, POL_NAMES[a.pol as usize]) } else { String::new() },
                        a.start_after,
                        a.unsub_after,
                        if a.double_unsub { " twice" } else { "" },
                        if a.at_build { "at-build" } else { "run-time" }
                    ))
                })
                .collect()),
        ),
        ("stalled_channeled", c.stall.map(|(cap, p)| J::s(format!("cap {} {} parked at a gate{}", cap, POL_NAMES[p as usize], if c.long_stall_ms > 0 { format!(", long stall {} ms", c.long_stall_ms) } else { String::new() }))).unwrap_or(J::Null)),
        ("slow_consumer_ms", J::U(c.slow_consumer_ms)),
        ("stalled_subscriber_released_ms_after_stop_invoked", J::U(c.stall_through_stop_ms)),
        ("cross_unsubscribe", c.cross_unsub.map(|(cap, p, n)| J::s(format!("channeled X unsubscribes channeled Y (cap {} {}) from inside its {}-th on_notify", cap, POL_NAMES[p as usize], n))).unwrap_or(J::Null)),
        ("perturb", J::U(c.perturb as u64)),
        ("whole_run_sentinel", J::B(!c.no_sentinel)),
        ("lone_subscriber_handover", J::B(c.lone)),
        ("on_unsubscribe_panics_inside_unsubscribe_then_stop", c.poison.map(|ch| J::s(if ch { "with a parked channeled subscriber holding a backlog" } else { "direct subscribers only" })).unwrap_or(J::Null)),
        ("selector_subscriber_notified_by_threads_in_lock_step", c.sel_race.map(|n| J::U(n as u64)).unwrap_or(J::Null)),
        ("empty_iterator_dropped_while_subscriber_list_is_busy", J::B(c.quiet_drop)),
        ("that_drop_happens_by_a_panic_unwinding_the_owner", J::B(c.quiet_drop)),
        ("burst_unsubscribe", c.burst.map(|(k, r)| J::s(format!("{} rounds: {} short-lived subscribers + one that stays, the {} unsubscribed by {} threads released together", r, k, k, k))).unwrap_or(J::Null)),
    ])
}

const MARK_GIVEUP: u32 = 900;
const MARK_STALL_DONE: u32 = 5;
pub const MARK_PANICKED_SUB: u32 = 8;

/// Deterministic hand-over: list = [X] (channeled, parked at a gate with a backlog); T2 unsubscribes X
/// (blocks in the join while holding the list lock), T1 registers S2 meanwhile; gate opens; more actions.
fn execute_lone(c: &DCfg, seed: u64) -> W {
    let ctx = Ctx::new(ScriptSrc::Table(vec![Script::plain()]), 3, seed, c.perturb, false);
    let w = W::new(ctx, vec![StoreCfg { policy: POL_BLOCK, cap: 16, n_red: c.n_red, n_mw: 0, name: "rsvd".into(), ctor: 0 }]);
    let (xid, xsn) = w.add_channeled(0, 4, POL_BLOCK, 1, true, true, false);
    for k in 0..3 {
        w.dispatch(0, EP_INHERENT, Act { id: act_id(0, 1, k + 1), script: 0 });
    }
    w.ctx.gates[1].wait_parked(1);
    let mut keep = None;
    std::thread::scope(|sc| {
        let w = &w;
        let t2 = std::thread::Builder::new().name("unsub".into()).spawn_scoped(sc, move || w.unsubscribe(0, xid, xsn.as_ref())).unwrap();
        crate::fam_a::wait_until(|| crate::fam_a::count_kind(w, K::UInv, xid) >= 1);
        let t1 = std::thread::Builder::new().name("sub".into()).spawn_scoped(sc, move || w.add_direct(0, NOGATE, false, false, false)).unwrap();
        crate::fam_a::wait_until(|| w.ctx.log.bufs.lock().unwrap().iter().any(|(_, b)| b.lock().unwrap().iter().any(|e| e.k == K::AddInv && e.idx != xid)));
        for _ in 0..20 {
            std::thread::yield_now();
        }
        w.ctx.gates[1].open();
        t2.join().unwrap();
        keep = Some(t1.join().unwrap());
    });
    for k in 0..3 {
        w.dispatch(0, EP_INHERENT, Act { id: act_id(0, 2, k + 1), script: 0 });
    }
    w.stop(0, STOP_STOP);
    w.read(0);
    drop(keep);
    w
}

/// Removal of different subscribers racing each other: the list is [head, .., s1..sk, tail_r]; k threads
/// released together unsubscribe s1..sk; head and every tail stay to the end.
fn execute_burst(c: &DCfg, seed: u64, k: usize, rounds: usize) -> W {
    let ctx = Ctx::new(ScriptSrc::Table(vec![Script::plain()]), 3, seed, c.perturb, false);
    let w = W::new(ctx, vec![StoreCfg { policy: POL_BLOCK, cap: 16, n_red: c.n_red, n_mw: 0, name: "rsvd".into(), ctor: 0 }]);
    let mut keep = vec![w.add_direct(0, NOGATE, false, true, false)];
    let mut seq = 0u32;
    for _ in 0..rounds {
        let shorts: Vec<_> = (0..k).map(|i| if i % 2 == 1 && c.n_red == 2 { w.add_channeled(0, 2, POL_BLOCK, NOGATE, false, false, false) } else { w.add_direct(0, NOGATE, false, false, false) }).collect();
        keep.push(w.add_direct(0, NOGATE, false, false, false));
        seq += 1;
        w.dispatch(0, EP_INHERENT, Act { id: act_id(0, 1, seq), script: 0 });
        let go = std::sync::atomic::AtomicUsize::new(0);
        std::thread::scope(|sc| {
            let hs: Vec<_> = shorts
                .into_iter()
                .enumerate()
                .map(|(i, (id, sn))| {
                    let (w, go) = (&w, &go);
                    std::thread::Builder::new().name(format!("unsub{}", i)).spawn_scoped(sc, move || {
                        go.fetch_add(1, std::sync::atomic::Ordering::AcqRel);
                        let mut spins = 0u32;
                        while go.load(std::sync::atomic::Ordering::Acquire) < k {
                            spins += 1;
                            if cfg!(miri) || spins > 2000 {
                                std::thread::yield_now(); // (fewer CPUs than threads: do not burn the time slice)
                            } else {
                                std::hint::spin_loop();
                            }
                        }
                        w.unsubscribe(0, id, sn.as_ref());
                        (id, sn)
                    }).unwrap()
                })
                .collect();
            for h in hs {
                keep.push(h.join().unwrap());
            }
        });
        seq += 1;
        w.dispatch(0, EP_INHERENT, Act { id: act_id(0, 1, seq), script: 0 });
    }
    w.stop(0, STOP_STOP);
    w.read(0);
    drop(keep);
    w
}

/// A subscriber whose on_unsubscribe panics inside unsubscribe() (caught by the caller) and no action
/// afterwards; then the store is stopped (`how`): every other subscriber is released exactly once and a
/// parked channeled subscriber's backlog is delivered before the stop returns.
pub fn execute_poison(seed: u64, how: u32, n_red: u32, perturb: u8, with_chan: bool) -> W {
    let ctx = Ctx::new(ScriptSrc::Table(vec![Script::plain()]), 3, seed, perturb, false);
    let w = W::new(ctx, vec![StoreCfg { policy: POL_BLOCK, cap: 16, n_red, n_mw: 0, name: "rsvp".into(), ctor: 0 }]);
    let counter = Arc::new(Counter::new());
    let s1 = w.add_direct_counted(0, true, counter.clone());
    let x = if with_chan { Some(w.add_channeled(0, 4, POL_BLOCK, 1, true, true, false)) } else { None };
    let p = w.add_direct_sub(0, true, |sub| sub.panic_on_unsub = std::sync::atomic::AtomicBool::new(true));
    let s2 = w.add_direct(0, NOGATE, false, true, false);
    let droppable = if how == STOP_DROP { Some(rs_store::DroppableStore::new(w.stores[0].clone())) } else { None };
    let n = 1 + (seed % 3) as u32;
    for k in 0..n {
        w.dispatch(0, EP_INHERENT, Act { id: act_id(0, 1, k + 1), script: 0 });
    }
    if !counter.wait_at_least(n as u64, 20) || (with_chan && !w.ctx.gates[1].wait_parked(1)) {
        w.mark(MARK_GIVEUP, 7);
        w.ctx.gates[2].wait();
    }
    let r = std::panic::catch_unwind(std::panic::AssertUnwindSafe(|| w.unsubscribe(0, p.0, p.1.as_ref())));
    // (the panicking subscriber itself is outside the properties: its callback did not return)
    let _ = r;
    w.mark(MARK_PANICKED_SUB, p.0 as u64);
    std::thread::scope(|sc| {
        let w = &w;
        std::thread::Builder::new().name("opener".into()).spawn_scoped(sc, move || {
            crate::fam_a::wait_until(|| crate::fam_a::count_kind(w, K::StopInv, how) >= 1);
            w.ctx.perturb();
            if !cfg!(miri) {
                std::thread::sleep(std::time::Duration::from_millis(2));
            }
            w.ctx.gates[1].open();
        }).unwrap();
        match droppable {
            Some(d) => w.drop_droppable(0, d),
            None => w.stop(0, how),
        };
    });
    w.dispatch(0, EP_INHERENT, Act { id: act_id(0, 41, 1), script: 0 });
    w.read(0);
    w.metrics(0);
    drop((s1, x, p, s2));
    w
}

/// Iterators A (never read) and B (consumed to the end). With no action dispatched yet, T1 unsubscribes a
/// subscriber whose on_unsubscribe parks at gate 1, T2 drops A meanwhile, the gate opens; then actions are
/// dispatched and the store is stopped: B yields every pair and ends.
fn execute_quiet_drop(c: &DCfg, seed: u64) -> W {
    let ctx = Ctx::new(ScriptSrc::Table(vec![Script::plain()]), 3, seed, c.perturb, false);
    let w = W::new(ctx, vec![StoreCfg { policy: POL_BLOCK, cap: 16, n_red: c.n_red, n_mw: 0, name: "rsvd".into(), ctor: 0 }]);
    let sentinel = w.add_direct(0, NOGATE, false, true, false);
    let q = w.add_direct_sub(0, true, |sub| sub.unsub_gate = 1);
    let (aid, a_it) = w.add_iter(0, true);
    let (bid, mut b_it) = w.add_iter(0, true);
    let ta = w.add_direct(0, NOGATE, false, true, false);
    w.set_twin(bid, ta.0);
    let mut qkeep = None;
    std::thread::scope(|sc| {
        let w = &w;
        let consumer = std::thread::Builder::new().name("consumer".into()).spawn_scoped(sc, move || {
            loop {
                w.ctx.ev(K::ItInv, 0, 0, bid, 0, 0, 0);
                match b_it.next() {
                    Some((st, act)) => {
                        w.ctx.evz(K::ItNext, 0, act.id, bid, st.digest(), st.steps, st.valid() as u8, act.script);
                    }
                    None => {
                        w.ctx.ev(K::ItNext, 0, 0, bid, 0, 0, 0);
                        break;
                    }
                }
            }
            for _ in 0..2 {
                w.ctx.ev(K::ItInv, 0, 0, bid, 0, 0, 0);
                let x = b_it.next();
                w.ctx.ev(K::ItNext, 0, x.as_ref().map(|p| p.1.id).unwrap_or(0), bid, 0, 0, x.is_some() as u8 + 2);
            }
            w.ctx.ev(K::ItDropInv, 0, 0, bid, 0, 0, 0);
            drop(b_it);
            w.ctx.ev(K::ItDropRet, 0, 0, bid, 0, 0, 0);
        }).unwrap();
        std::thread::scope(|s2| {
            let t1 = std::thread::Builder::new().name("unsub".into()).spawn_scoped(s2, move || {
                w.unsubscribe(0, q.0, q.1.as_ref());
                q
            }).unwrap();
            if !w.ctx.gates[1].wait_parked(1) {
                w.mark(MARK_GIVEUP, 8);
                w.ctx.gates[2].wait();
            }
            // every other time the iterator is dropped by a panic unwinding through its owner's frame
            let by_panic = seed % 2 == 1;
            let t2 = std::thread::Builder::new().name("dropper".into()).spawn_scoped(s2, move || {
                // (r = 0: nothing was ever queued for this iterator and no action is in flight - not the
                // early drop of the known finding)
                w.ctx.ev(K::ItDropInv, 0, 0, aid, 0, 0, 0);
                if by_panic {
                    let _owned = a_it;
                    std::panic::panic_any(PANIC_MARK);
                }
                drop(a_it);
                w.ctx.ev(K::ItDropRet, 0, 0, aid, 0, 0, 0);
            }).unwrap();
            crate::fam_a::wait_until(|| crate::fam_a::count_where(w, |e| e.k == K::ItDropInv && e.idx == aid) >= 1);
            for _ in 0..50 {
                std::thread::yield_now();
            }
            w.ctx.gates[1].open();
            qkeep = Some(t1.join().unwrap());
            if t2.join().is_err() {
                // the owner thread panicked: the drop happened while it was unwinding and is over now
                w.ctx.ev(K::ItDropRet, 0, 0, aid, 0, 0, 0);
            }
        });
        for k in 0..(2 + (seed % 3) as u32) {
            w.dispatch(0, EP_INHERENT, Act { id: act_id(0, 1, k + 1), script: 0 });
        }
        w.stop(0, STOP_STOP);
        consumer.join().unwrap();
    });
    w.read(0);
    drop((sentinel, qkeep, ta));
    w
}

pub const MARK_SELRACE: u32 = 12;

/// One SelectorSubscriber, n threads calling on_notify with the same value at the same moment, value
/// changing every round. Comparing, remembering and delivering are one atomic step per call, so whatever
/// the interleaving the delivered values never repeat back to back (exactly one delivery per round here).
fn execute_selrace(c: &DCfg, seed: u64, n: usize) -> W {
    let ctx = Ctx::new(ScriptSrc::Table(vec![Script::plain()]), 3, seed, c.perturb, false);
    let w = W::new(ctx, vec![StoreCfg { policy: POL_BLOCK, cap: 16, n_red: 1, n_mw: 0, name: "rsvd".into(), ctor: 0 }]);
    let delivered: Arc<std::sync::Mutex<Vec<(u8, u32)>>> = Arc::new(std::sync::Mutex::new(Vec::new()));
    let d2 = delivered.clone();
    let sub = rs_store::SelectorSubscriber::new(SelSelector, move |v: u8, a: Act| d2.lock().unwrap().push((v, a.id)));
    let rounds = if cfg!(miri) { 5 } else { 120 };
    let arrived = std::sync::atomic::AtomicUsize::new(0);
    std::thread::scope(|sc| {
        for t in 0..n {
            let (sub, arrived) = (&sub, &arrived);
            std::thread::Builder::new().name(format!("notifier{}", t)).spawn_scoped(sc, move || {
                let mut st = St::initial(0);
                for k in 0..rounds {
                    arrived.fetch_add(1, std::sync::atomic::Ordering::AcqRel);
                    let mut spins = 0u32;
                    while arrived.load(std::sync::atomic::Ordering::Acquire) < (k + 1) * n {
                        spins += 1;
                        if cfg!(miri) || spins > 2000 {
                            std::thread::yield_now(); // (fewer CPUs than threads: do not burn the time slice)
                        } else {
                            std::hint::spin_loop();
                        }
                    }
                    st.sel = (k % 3) as u8;
                    st.steps = k as u64 + 1;
                    let act = Act { id: act_id(0, t as u32 + 1, k as u32 + 1), script: 0 };
                    <rs_store::SelectorSubscriber<St, Act, SelSelector, u8> as rs_store::Subscriber<St, Act>>::on_notify(sub, &st, &act);
                }
            }).unwrap();
        }
    });
    let d = delivered.lock().unwrap().clone();
    let dup = d.windows(2).position(|p| p[0].0 == p[1].0);
    let wrong = d.iter().position(|(v, a)| *v != ((id_seq(*a) - 1) % 3) as u8);
    let code = if let Some(i) = dup { i as u64 } else if wrong.is_some() || d.len() != rounds { u64::MAX - 1 } else { u64::MAX };
    w.ctx.ev(K::Mark, 0, dup.map(|i| d[i].0 as u32).unwrap_or(0), MARK_SELRACE, code, d.len() as u64, n as u8);
    // second phase, a fresh instance, no lock step: every thread runs through its own value sequence at its
    // own pace. The deliveries (recorded inside the callback) still never repeat a value back to back.
    let delivered2: Arc<std::sync::Mutex<Vec<(u8, u32)>>> = Arc::new(std::sync::Mutex::new(Vec::new()));
    let d3 = delivered2.clone();
    let sub2 = rs_store::SelectorSubscriber::new(SelSelector, move |v: u8, a: Act| d3.lock().unwrap().push((v, a.id)));
    let go = std::sync::atomic::AtomicUsize::new(0);
    std::thread::scope(|sc| {
        for t in 0..n {
            let (sub2, go) = (&sub2, &go);
            std::thread::Builder::new().name(format!("free{}", t)).spawn_scoped(sc, move || {
                go.fetch_add(1, std::sync::atomic::Ordering::AcqRel);
                while go.load(std::sync::atomic::Ordering::Acquire) < n {
                    std::thread::yield_now();
                }
                let mut st = St::initial(0);
                let mut rng = Rng::new(mix(seed, 70 + t as u64));
                for k in 0..rounds {
                    st.sel = rng.below(3) as u8;
                    st.steps = k as u64 + 1;
                    // (the value travels in the action id's sequence field: seq = 3k + value + 1)
                    let act = Act { id: act_id(0, 10 + t as u32, 3 * k as u32 + st.sel as u32 + 1), script: 0 };
                    <rs_store::SelectorSubscriber<St, Act, SelSelector, u8> as rs_store::Subscriber<St, Act>>::on_notify(sub2, &st, &act);
                }
            }).unwrap();
        }
    });
    let d = delivered2.lock().unwrap().clone();
    let dup = d.windows(2).position(|p| p[0].0 == p[1].0);
    let wrong = d.iter().position(|(v, a)| *v != ((id_seq(*a) - 1) % 3) as u8);
    let code = if let Some(i) = dup { i as u64 } else if wrong.is_some() || d.is_empty() { u64::MAX - 1 } else { u64::MAX };
    w.ctx.ev(K::Mark, 1, dup.map(|i| d[i].0 as u32).unwrap_or(0), MARK_SELRACE, code, d.len() as u64, n as u8);
    // third phase: the callback for value 1 is slow (parked at gate 1) while another thread presents
    // value 2 to the same instance; that call waits its turn and is then delivered
    let delivered3: Arc<std::sync::Mutex<Vec<(u8, u32)>>> = Arc::new(std::sync::Mutex::new(Vec::new()));
    let d4 = delivered3.clone();
    let cx = w.ctx.clone();
    let sub3 = rs_store::SelectorSubscriber::new(SelSelector, move |v: u8, a: Act| {
        d4.lock().unwrap().push((v, a.id));
        if v == 1 {
            cx.gate_wait(1, 0, a.id);
        }
    });
    let b_called = std::sync::atomic::AtomicBool::new(false);
    let parked_ok = std::thread::scope(|sc| {
        let (sub3, b_called, w) = (&sub3, &b_called, &w);
        let call = move |val: u8, prod: u32| {
            let mut st = St::initial(0);
            st.sel = val;
            st.steps = 1;
            let act = Act { id: act_id(0, prod, val as u32 + 1), script: 0 };
            <rs_store::SelectorSubscriber<St, Act, SelSelector, u8> as rs_store::Subscriber<St, Act>>::on_notify(sub3, &st, &act);
        };
        std::thread::Builder::new().name("slowcb".into()).spawn_scoped(sc, move || call(1, 20)).unwrap();
        let ok = w.ctx.gates[1].wait_parked(1);
        std::thread::Builder::new().name("second".into()).spawn_scoped(sc, move || {
            b_called.store(true, std::sync::atomic::Ordering::Release);
            call(2, 21)
        }).unwrap();
        while !b_called.load(std::sync::atomic::Ordering::Acquire) {
            std::thread::yield_now();
        }
        for _ in 0..100 {
            std::thread::yield_now();
        }
        if !cfg!(miri) {
            std::thread::sleep(std::time::Duration::from_micros(300));
        }
        w.ctx.gates[1].open();
        ok
    });
    let d = delivered3.lock().unwrap().clone();
    let good = d.iter().map(|x| x.0).collect::<Vec<_>>() == vec![1, 2];
    w.ctx.ev(K::Mark, 2, d.len() as u32, MARK_SELRACE, if good || !parked_ok { u64::MAX } else { u64::MAX - 1 }, d.len() as u64, n as u8);
    w.stop(0, STOP_STOP);
    w
}

pub fn execute(c: &DCfg, seed: u64) -> W {
    if c.quiet_drop {
        return execute_quiet_drop(c, seed);
    }
    if let Some(n) = c.sel_race {
        return execute_selrace(c, seed, n);
    }
    if let Some(ch) = c.poison {
        return execute_poison(seed, if seed % 4 == 0 { STOP_TRAIT } else { STOP_STOP }, c.n_red, c.perturb, ch);
    }
    if c.lone {
        return execute_lone(c, seed);
    }
    if let Some((k, rounds)) = c.burst {
        return execute_burst(c, seed, k, rounds);
    }
    let ctx = Ctx::new(ScriptSrc::Table(c.scripts.clone()), 3, seed, c.perturb, false);
    let w = W::new(ctx, vec![StoreCfg { policy: c.policy, cap: c.cap, n_red: c.n_red, n_mw: 0, name: "rsvd".into(), ctor: 0 }]);
    let total = (c.n_prod * c.per_prod) as u64;
    let returned = Counter::new();
    let registered = Counter::new();
    let sentinel = if c.no_sentinel { None } else { Some(w.add_direct(0, NOGATE, false, true, false)) };
    let stall_counter = Arc::new(Counter::new());
    // pre-generate the action list so the controller knows how many notify
    let mut progs: Vec<Vec<Act>> = Vec::new();
    let mut rng = Rng::new(mix(seed, 4242));
    let mut notifying = 0u64;
    for p in 0..c.n_prod {
        let mut v = Vec::new();
        for k in 0..c.per_prod {
            let script = rng.below(c.scripts.len() as u64) as u32;
            if c.scripts[script as usize].keep == 0 {
                notifying += 1;
            }
            v.push(Act { id: act_id(0, p as u32 + 1, k as u32 + 1), script });
        }
        progs.push(v);
    }
    let give_up = |what: u64| {
        w.mark(MARK_GIVEUP, what);
        w.ctx.gates[2].wait();
    };
    type Reg = (u32, Option<Box<dyn rs_store::Subscription>>, Option<Box<dyn Iterator<Item = (St, Act)> + Send>>, Option<(u32, Box<dyn rs_store::Subscription>)>);
    let register = |a: &Actor| -> Reg {
        match a.kind {
            0 => {
                let (id, sn) = w.add_direct(0, NOGATE, false, a.at_build, false);
                (id, Some(sn), None, None)
            }
            1 if a.slow && !a.default_api => {
                let (id, sn) = w.add_channeled_sub(0, a.cap, a.pol, a.at_build, |sub| {
                    sub.hook = Some(Arc::new(|c: &Arc<Ctx>, _st: &St, _a: &Act| {
                        if !cfg!(miri) {
                            std::thread::sleep(std::time::Duration::from_micros(60));
                        }
                        c.perturb();
                    }));
                });
                let t = w.add_direct(0, NOGATE, false, a.at_build, false);
                w.set_twin(id, t.0);
                (id, Some(sn), None, Some(t))
            }
            1 => {
                let (id, sn) = w.add_channeled(0, a.cap, if a.default_api { POL_BLOCK } else { a.pol }, NOGATE, false, a.at_build, a.default_api);
                let t = w.add_direct(0, NOGATE, false, a.at_build, false);
                w.set_twin(id, t.0);
                (id, Some(sn), None, Some(t))
            }
            2 => {
                let (id, sn) = w.add_selector(0, a.at_build);
                let t = w.add_direct(0, NOGATE, false, a.at_build, false);
                w.set_twin(id, t.0);
                (id, Some(sn), None, Some(t))
            }
            _ => {
                let (id, it) = w.add_iter(0, a.at_build);
                let t = w.add_direct(0, NOGATE, false, a.at_build, false);
                w.set_twin(id, t.0);
                (id, None, Some(it), Some(t))
            }
        }
    };
    let mut prereg: Vec<Option<Reg>> = c.actors.iter().map(|a| if a.at_build { Some(register(a)) } else { None }).collect();
    let mut stall_keep = None;
    if let Some((cap, pol)) = c.stall {
        let (id, sn) = w.add_channeled(0, cap, pol, 1, true, true, false);
        let t = w.add_direct_counted(0, true, stall_counter.clone());
        w.set_twin(id, t.0);
        stall_keep = Some((sn, t));
    }
    let mut cross_keep = None;
    let cross_done = Arc::new(Counter::new());
    if let Some((cap, pol, nth)) = c.cross_unsub {
        // Y: slow channeled subscriber (+ twin); X: channeled subscriber whose callback unsubscribes Y
        let (yid, ysn) = w.add_channeled_sub(0, cap, pol, true, |sub| {
            sub.hook = Some(Arc::new(|c: &Arc<Ctx>, _st: &St, _a: &Act| {
                if !cfg!(miri) {
                    std::thread::sleep(std::time::Duration::from_micros(40));
                }
                c.perturb();
            }));
        });
        let ty = w.add_direct(0, NOGATE, false, true, false);
        w.set_twin(yid, ty.0);
        let cell: Arc<std::sync::Mutex<Option<Box<dyn rs_store::Subscription>>>> = Arc::new(std::sync::Mutex::new(Some(ysn)));
        let seen = Arc::new(std::sync::atomic::AtomicU32::new(0));
        let nth = nth.min(notifying as u32);
        let (xid, xsn) = w.add_channeled_sub(0, 4, POL_BLOCK, true, |sub| {
            let cell = cell.clone();
            let seen = seen.clone();
            let cross_done = cross_done.clone();
            sub.hook = Some(Arc::new(move |c: &Arc<Ctx>, _st: &St, _a: &Act| {
                if seen.fetch_add(1, std::sync::atomic::Ordering::Relaxed) + 1 == nth {
                    if let Some(sn) = cell.lock().unwrap().take() {
                        c.ev(K::UInv, 0, 0, yid, 0, 0, 0);
                        sn.unsubscribe();
                        c.ev(K::URet, 0, 0, yid, 0, 0, 0);
                    }
                    cross_done.add(1);
                }
            }));
        });
        let tx = w.add_direct(0, NOGATE, false, true, false);
        w.set_twin(xid, tx.0);
        cross_keep = Some((xsn, ty, tx, cell));
    }
    std::thread::scope(|sc| {
        let mut hs = Vec::new();
        for (p, prog) in progs.iter().enumerate() {
            let w = &w;
            let returned = &returned;
            hs.push(std::thread::Builder::new().name(format!("prod{}", p + 1)).spawn_scoped(sc, move || {
                for act in prog {
                    w.ctx.perturb();
                    w.dispatch(0, (act.id % 3) as u32, act.clone());
                    returned.add(1);
                }
            }).unwrap());
        }

        let mut ahs = Vec::new();
        let mut consumers = Vec::new();
        for (i, a) in c.actors.iter().enumerate() {
            let w = &w;
            let returned = &returned;
            let pre = prereg[i].take();
            let register = &register;
            let registered = &registered;
            let h = std::thread::Builder::new().name(format!("actor{}", i)).spawn_scoped(sc, move || {
                let reg = match pre {
                    Some(r) => r,
                    None => {
                        returned.wait_at_least(a.start_after.min(total), 30);
                        w.ctx.perturb();
                        register(a)
                    }
                };
                let (id, sn, it, twin) = reg;
                let mut replacement = None;
                registered.add(1);
                if let Some(mut it) = it {
                    // iterator consumer: read to the end, then twice more, then drop
                    let mut paused = c.slow_consumer_ms == 0;
                    loop {
                        if !paused && returned.get() >= total {
                            // producers are done: from here on pause once, after stop() has been invoked,
                            // with (possibly) an unread pair sitting in the iterator's channel
                            paused = true;
                            crate::fam_a::wait_until(|| crate::fam_a::count_kind(w, K::StopInv, STOP_STOP) >= 1);
                            std::thread::sleep(std::time::Duration::from_millis(c.slow_consumer_ms));
                        }
                        w.ctx.ev(K::ItInv, 0, 0, id, 0, 0, 0);
                        let x = it.next();
                        match x {
                            Some((st, act)) => {
                                w.ctx.evz(K::ItNext, 0, act.id, id, st.digest(), st.steps, st.valid() as u8, act.script);
                                w.ctx.perturb();
                            }
                            None => {
                                w.ctx.ev(K::ItNext, 0, 0, id, 0, 0, 0);
                                break;
                            }
                        }
                    }
                    for _ in 0..2 {
                        w.ctx.ev(K::ItInv, 0, 0, id, 0, 0, 0);
                        let x = it.next();
                        w.ctx.ev(K::ItNext, 0, x.as_ref().map(|p| p.1.id).unwrap_or(0), id, 0, 0, x.is_some() as u8 + 2);
                    }
                    w.ctx.ev(K::ItDropInv, 0, 0, id, 0, 0, 0);
                    drop(it);
                    w.ctx.ev(K::ItDropRet, 0, 0, id, 0, 0, 0);
                } else if let (Some(after), Some(sn)) = (a.unsub_after, sn.as_ref()) {
                    returned.wait_at_least(after.min(total), 30);
                    w.ctx.perturb();
                    w.unsubscribe(0, id, sn.as_ref());
                    if a.double_unsub {
                        // a stale handle used again later, after other subscribers have come and gone:
                        // this thread registers a replacement right away (it tends to be allocated
                        // where the released subscriber was)
                        if a.kind == 0 {
                            replacement = Some(w.add_direct(0, NOGATE, false, false, false));
                        }
                        returned.wait_at_least((after + 3).min(total), 30);
                        w.ctx.perturb();
                        w.unsubscribe(0, id, sn.as_ref());
                    }
                }
                (sn, twin, replacement)
            }).unwrap();
            // iterator consumers end with the stream; an unsubscribe scheduled for the very end of the run
            // is left to race with stop()
            if a.kind == 3 || (a.unsub_after.map(|x| x >= total).unwrap_or(false) && c.cross_unsub.is_none() && c.stall.is_none()) {
                consumers.push(h);
            } else {
                ahs.push(h);
            }
        }
        if let Some((cap, POL_BLOCK)) = c.stall {
            // BlockOnFull subscriber parked at the gate: the reducer blocks once the channel is full
            // (cap queued + one in the subscriber's hands); producers then block on the store queue.
            // The twin sees cap+1 notifications at most until the gate opens.
            let need = notifying.min(cap as u64 + 1);
            if !stall_counter.wait_at_least(need, 20) {
                give_up(3);
            }
            if c.long_stall_ms > 0 {
                std::thread::sleep(std::time::Duration::from_millis(c.long_stall_ms));
            }
            w.mark(MARK_STALL_DONE, need);
            w.ctx.gates[1].open();
        }
        for h in hs {
            h.join().unwrap();
        }
        if matches!(c.stall, Some((_, p)) if p != POL_BLOCK) {
            // the stalled drop-policy subscriber must not stall reducing: every notifying action
            // reaches its twin while the gate is still closed
            if !stall_counter.wait_at_least(notifying, 20) {
                give_up(1);
            }
            w.mark(MARK_STALL_DONE, notifying);
            if c.stall_through_stop_ms == 0 {
                w.ctx.gates[1].open();
            }
        }
        let mut keep = Vec::new();
        for h in ahs {
            keep.push(h.join().unwrap());
        }
        // a callback that calls unsubscribe() must not overlap the shutdown (it would wait for the
        // subscribers lock while clear_subscribers joins its thread): let it finish first
        if c.cross_unsub.is_some() && notifying > 0 && !cross_done.wait_at_least(1, 20) {
            give_up(4);
        }
        // every iterator is created before stop() is invoked (C14 quantifies over those only)
        registered.wait_at_least(c.actors.len() as u64, 30);
        if c.stall_through_stop_ms > 0 {
            let w = &w;
            std::thread::Builder::new().name("opener".into()).spawn_scoped(sc, move || {
                crate::fam_a::wait_until(|| crate::fam_a::count_kind(w, K::StopInv, STOP_STOP) >= 1);
                std::thread::sleep(std::time::Duration::from_millis(c.stall_through_stop_ms));
                w.ctx.gates[1].open();
            }).unwrap();
        }
        w.stop(0, STOP_STOP);
        for h in consumers {
            keep.push(h.join().unwrap());
        }
        w.read(0);
        w.metrics(0);
        drop(keep);
    });
    drop(sentinel);
    drop(stall_keep);
    drop(cross_keep);
    w
}

// ---------------------------------------------------------------------------------------------
// oracles

struct SubTimes {
    add_inv: u64,
    add_ret: u64,
    uinv: Vec<u64>,
    uret: Vec<u64>,
}

fn sub_times(h: &Hist, id: u32) -> SubTimes {
    let mut t = SubTimes { add_inv: 0, add_ret: 0, uinv: vec![], uret: vec![] };
    for e in h.evs.iter().filter(|e| e.idx == id) {
        match e.k {
            K::AddInv if e.r == REG_SUB => t.add_inv = e.seq,
            K::AddRet if e.r == REG_SUB => t.add_ret = e.seq,
            K::UInv => t.uinv.push(e.seq),
            K::URet => t.uret.push(e.seq),
            _ => {}
        }
    }
    t
}

/// seq before which the subscriber snapshot of action a cannot have been taken
fn snapshot_lower_bound(ar: &ActRec) -> u64 {
    let mut m = ar.first;
    for r in &ar.reduces {
        m = m.max(r.end);
    }
    for x in &ar.mws {
        if x.end != INF {
            m = m.max(x.end);
        }
    }
    m
}

pub fn c09(h: &Hist, s: u8, v: &mut Verdicts) {
    let sh = &h.st[s as usize];
    v.evaluated.insert("C09");
    if stop_timed_out(h, s) {
        v.inconcl("C09", "stop() hit its timeout".into());
        return;
    }
    let sr = match first_stop(h, s) {
        Some(x) => x.clone(),
        None => return,
    };
    let first_shutdown = sh.stops.iter().map(|r| r.inv).min().unwrap_or(sr.inv);
    let f = fold(h, s, v, false);
    let e_stream = notif_stream(h, s, &f);
    let mut overlap = false;
    let mut late_known = 0u64;
    for si in h.subs.iter().filter(|si| (si.store == s || si.shared) && (si.kind == SK_DIRECT || si.kind == SK_CHANNELED)) {
        let t = sub_times(h, si.id);
        if t.add_ret == 0 || t.add_ret > first_shutdown {
            continue; // only subscribers registered before shutdown was invoked are judged
        }
        if h.evs.iter().any(|e| e.k == K::Mark && e.idx == MARK_PANICKED_SUB && e.x == si.id as u64) {
            continue; // its on_unsubscribe panicked inside unsubscribe(): not a callback "that returns"
        }
        let nots: Vec<&Ev> = h.evs.iter().filter(|e| e.k == K::SBeg && e.idx == si.id && e.store == s).collect();
        let got: HashSet<u32> = nots.iter().map(|e| e.a).collect();
        // (1) registered before dispatch and never unsubscribed => notified (direct: always;
        //     channeled: BlockOnFull only, drop policies may discard)
        if t.uinv.is_empty() && (si.kind == SK_DIRECT || si.policy == POL_BLOCK) {
            for (a, _, _, _) in &e_stream {
                if let Some(d) = h.disp.get(a) {
                    if d.inv > t.add_ret && !got.contains(a) {
                        v.fail("C09", format!("store {}: subscriber {} ({}) was registered (seq {}) before {} was dispatched (seq {}) and never unsubscribed, but was not notified of it", s, si.id, kind_name(si), t.add_ret, id_str(*a), d.inv));
                    }
                }
            }
        }
        // (2) silent after unsubscribe() returned
        if let Some(&uret) = t.uret.first() {
            for e in &nots {
                if e.seq > uret {
                    let lb = sh.acts.get(&e.a).map(snapshot_lower_bound).unwrap_or(0);
                    if si.kind == SK_DIRECT && lb < uret {
                        late_known += 1;
                        v.known("C09", "late-notify-inflight", format!("store {}: direct subscriber {} received on_notify for {} at seq {} after unsubscribe() had returned at seq {} (notification snapshot of that action may already have been in flight: its reduce phase ended at seq {})", s, si.id, id_str(e.a), e.seq, uret, lb));
                    } else {
                        v.fail("C09", format!("store {}: subscriber {} ({}) received on_notify for {} at seq {} after unsubscribe() had returned at seq {}; the action's reduce phase ended only at seq {}", s, si.id, kind_name(si), id_str(e.a), e.seq, uret, lb));
                    }
                }
            }
            // overlap of this unsubscribe with another subscriber's notification (non-triviality)
            let uinv = t.uinv[0];
            if h.evs.iter().any(|e| e.k == K::SBeg && e.idx != si.id && e.seq > uinv && e.seq < uret)
                || sh.acts.values().any(|ar| ar.nots.iter().any(|n| n.sub != si.id && n.beg < uinv && n.end > uinv))
            {
                overlap = true;
            }
        }
        // (3) on_unsubscribe exactly once, before unsubscribe()/stop() returned
        let uns: Vec<&Ev> = h.evs.iter().filter(|e| e.k == K::SUnsub && e.idx == si.id).collect();
        let shared_n = if si.shared { h.cfg.len() } else { 1 };
        if si.shared {
            continue;
        }
        if uns.len() != shared_n {
            v.fail("C09", format!("store {}: subscriber {} ({}) received on_unsubscribe {} times (unsubscribe() calls: {}, store stopped: yes)", s, si.id, kind_name(si), uns.len(), t.uinv.len()));
        } else {
            // released too early: before anybody asked for it (its own unsubscribe() or a shutdown)
            let earliest = t.uinv.first().copied().unwrap_or(INF).min(first_shutdown);
            if uns[0].seq < earliest {
                v.fail("C09", format!("store {}: subscriber {} ({}) received on_unsubscribe at seq {} although neither unsubscribe() nor a shutdown had been invoked yet (first at seq {})", s, si.id, kind_name(si), uns[0].seq, earliest));
            }
            let settled = settled_stop_ret(h, s);
            let deadline = t.uret.first().copied().unwrap_or(INF).min(settled);
            if uns[0].seq > deadline {
                v.fail("C09", format!("store {}: subscriber {} ({}) received on_unsubscribe at seq {} only after {} had returned at seq {}", s, si.id, kind_name(si), uns[0].seq, if deadline == settled { "stop()" } else { "unsubscribe()" }, deadline));
            }
        }
    }
    v.count("c09.late_notifications_classified_known", late_known);
    v.count("c09.subscribers_judged", h.subs.len() as u64);
    if overlap {
        v.nontrivial.insert("C09");
    }
}

fn kind_name(si: &SubInfo) -> String {
    match si.kind {
        SK_DIRECT => "direct".into(),
        SK_CHANNELED => format!("channeled cap {} {}", si.cap, POL_NAMES[si.policy as usize]),
        SK_SELECTOR => "selector".into(),
        _ => "iterator".into(),
    }
}

/// position of each action in the notification stream
fn stream_index(e: &[(u32, u64, u8, u64)]) -> HashMap<u32, usize> {
    e.iter().enumerate().map(|(i, x)| (x.0, i)).collect()
}

pub fn c10(h: &Hist, s: u8, v: &mut Verdicts) {
    let sh = &h.st[s as usize];
    let chans: Vec<&SubInfo> = h.subs.iter().filter(|si| si.store == s && si.kind == SK_CHANNELED).collect();
    if chans.is_empty() {
        return;
    }
    v.evaluated.insert("C10");
    if stop_timed_out(h, s) {
        v.inconcl("C10", "stop() hit its timeout".into());
        return;
    }
    if h.evs.iter().any(|e| e.k == K::Mark && e.idx == MARK_GIVEUP) {
        v.inconcl("C10", "controller gave up waiting".into());
        return;
    }
    let sr = match first_stop(h, s) {
        Some(x) => x.clone(),
        None => return,
    };
    let first_shutdown = sh.stops.iter().map(|r| r.inv).min().unwrap_or(sr.inv);
    let f = fold(h, s, v, false);
    let e_stream = notif_stream(h, s, &f);
    let pos = stream_index(&e_stream);
    let mut tids_seen: HashMap<u32, u32> = HashMap::new();
    let mut full_seen = false;
    for si in &chans {
        let t = sub_times(h, si.id);
        if t.add_ret == 0 || t.add_ret > first_shutdown {
            continue;
        }
        let dl: Vec<&Ev> = h.evs.iter().filter(|e| e.k == K::SBeg && e.idx == si.id).collect();
        // own thread, never the reducer context, one thread per subscription
        let mut tid = None;
        for e in &dl {
            if sh.rc_tids.contains(&e.tid) {
                v.fail("C10", format!("store {}: channeled subscriber {} was called in the reducer context (thread t{} '{}', seq {})", s, si.id, e.tid, h.names.get(e.tid as usize).cloned().unwrap_or_default(), e.seq));
                break;
            }
            if let Some(t0) = tid {
                if t0 != e.tid {
                    v.fail("C10", format!("store {}: channeled subscriber {} was called on two different threads (t{} and t{})", s, si.id, t0, e.tid));
                    break;
                }
            }
            tid = Some(e.tid);
        }
        if let Some(t0) = tid {
            if let Some(other) = tids_seen.insert(t0, si.id) {
                v.fail("C10", format!("store {}: channeled subscribers {} and {} share thread t{}", s, other, si.id, t0));
            }
            // a client thread must not be the delivery thread either
            if h.evs.iter().any(|e| e.tid == t0 && matches!(e.k, K::DInv | K::AddInv | K::StopInv)) {
                v.fail("C10", format!("store {}: channeled subscriber {} was called on a client thread (t{})", s, si.id, t0));
            }
        }
        // in-order subsequence of the notification stream, right states, no repeats
        let mut last: Option<usize> = None;
        let mut ok_seq = true;
        for e in &dl {
            match pos.get(&e.a) {
                None => {
                    v.fail("C10", format!("store {}: channeled subscriber {} was told about {} which is not a notifying action (seq {})", s, si.id, id_str(e.a), e.seq));
                    ok_seq = false;
                }
                Some(&p) => {
                    if e_stream[p].1 != e.x || e.r != 1 {
                        v.fail("C10", format!("store {}: channeled subscriber {} received {} with a state that is not the one this action produced (seq {})", s, si.id, id_str(e.a), e.seq));
                    }
                    if let Some(l) = last {
                        if p <= l {
                            v.fail("C10", format!("store {}: channeled subscriber {} received {} {} (stream position {} after {})", s, si.id, id_str(e.a), if p == l { "twice" } else { "out of order" }, p, l));
                            ok_seq = false;
                        } else if p != l + 1 && si.policy == POL_BLOCK {
                            v.fail("C10", format!("store {}: channeled subscriber {} (BlockOnFull) skipped {} notification(s) before {} (gap in the stream)", s, si.id, p - l - 1, id_str(e.a)));
                            ok_seq = false;
                        }
                    }
                    last = Some(p);
                }
            }
        }
        if !ok_seq {
            continue;
        }
        // flush: everything the twin (registered right after) saw before unsubscribe()/stop() was
        // invoked had already been queued for this subscriber
        let end_inv = t.uinv.first().copied().unwrap_or(INF).min(sr.inv);
        let end_ret = if t.uinv.first().copied().unwrap_or(INF) < sr.inv { t.uret.first().copied().unwrap_or(INF) } else { sr.ret };
        let end_name = if t.uinv.first().copied().unwrap_or(INF) < sr.inv { "unsubscribe()" } else { "stop()" };
        let delivered: HashMap<u32, u64> = h.evs.iter().filter(|e| e.k == K::SEnd && e.idx == si.id).map(|e| (e.a, e.seq)).collect();
        let settled = settled_stop_ret(h, s);
        for e in &dl {
            if e.seq > settled {
                v.fail("C10", format!("store {}: channeled subscriber {} was called for {} at seq {} after stop() had returned at seq {} (stop() did not wait for what was queued for it)", s, si.id, id_str(e.a), e.seq, settled));
                break;
            }
        }
        for e in &dl {
            if e.seq > end_ret {
                v.fail("C10", format!("store {}: channeled subscriber {} was called for {} at seq {} after {} had returned at seq {}", s, si.id, id_str(e.a), e.seq, end_name, end_ret));
            }
        }
        if let Some(tw) = si.twin {
            let tw_seen: Vec<&Ev> = h.evs.iter().filter(|e| e.k == K::SBeg && e.idx == tw && e.seq < end_inv).collect();
            let mut missing = 0u64;
            for e in &tw_seen {
                match delivered.get(&e.a) {
                    Some(&dseq) => {
                        if dseq > end_ret {
                            v.fail("C10", format!("store {}: {} returned at seq {} before notification {} queued for channeled subscriber {} had been delivered (seq {})", s, end_name, end_ret, id_str(e.a), si.id, dseq));
                        }
                    }
                    None => {
                        missing += 1;
                        if si.policy == POL_BLOCK {
                            v.fail("C10", format!("store {}: channeled subscriber {} (BlockOnFull, cap {}) never received {} although its direct twin saw it at seq {} before {} was invoked (seq {})", s, si.id, si.cap, id_str(e.a), e.seq, end_name, end_inv));
                        }
                    }
                }
            }
            if missing > 0 {
                full_seen = true;
                v.count("c10.discards_seen", missing);
            }
            if si.policy == POL_OLDEST {
                if let Some(lastt) = tw_seen.last() {
                    // newest notification always delivered: the last delivered item is at or after it
                    let need = pos.get(&lastt.a).copied();
                    if let (Some(need), Some(l)) = (need, last) {
                        if l < need {
                            v.fail("C10", format!("store {}: channeled subscriber {} (DropOldest) never received the newest notification {} (last delivered stream position {}, newest {})", s, si.id, id_str(lastt.a), l, need));
                        }
                    } else if need.is_some() && last.is_none() {
                        v.fail("C10", format!("store {}: channeled subscriber {} (DropOldest) received nothing although {} was notified while it was registered", s, si.id, id_str(lastt.a)));
                    }
                }
            }
            // stalled subscriber: reducer progressed while it was parked
            if let Some(m) = h.evs.iter().find(|e| e.k == K::Mark && e.idx == MARK_STALL_DONE) {
                if let Some(gw) = h.evs.iter().find(|e| e.k == K::GateWait && e.idx == 1) {
                    let progressed = h.evs.iter().filter(|e| e.k == K::SBeg && e.idx == tw && e.seq > gw.seq && e.seq < m.seq).count() as u64;
                    v.count("c10.notifications_while_subscriber_stalled", progressed);
                    if progressed > si.cap as u64 {
                        full_seen = true;
                    }
                }
            }
        }
        // a BlockOnFull channel was full if the reducer-side twin ran ahead of delivery by >= cap
        if si.policy == POL_BLOCK {
            if let Some(tw) = si.twin {
                let mut ahead = 0i64;
                let mut max_ahead = 0i64;
                for e in h.evs.iter().filter(|e| (e.k == K::SBeg && e.idx == tw) || (e.k == K::SBeg && e.idx == si.id)) {
                    if e.idx == tw {
                        ahead += 1;
                    } else {
                        ahead -= 1;
                    }
                    max_ahead = max_ahead.max(ahead);
                }
                if si.cap > 0 && max_ahead >= si.cap as i64 {
                    full_seen = true;
                }
            }
        }
        v.count("c10.deliveries_checked", dl.len() as u64);
    }
    if full_seen {
        v.nontrivial.insert("C10");
    }
}

pub fn c14(h: &Hist, s: u8, v: &mut Verdicts) {
    let sh = &h.st[s as usize];
    let iters: Vec<&SubInfo> = h.subs.iter().filter(|si| si.store == s && si.kind == SK_ITER).collect();
    if iters.is_empty() {
        return;
    }
    v.evaluated.insert("C14");
    // a stop() that ran into its timeout (slow consumer) does not change what the iterator owes: the
    // reducer finishes in the background and the stream still runs to its end
    let sr = match first_stop(h, s) {
        Some(x) => x.clone(),
        None => return,
    };
    let first_shutdown = sh.stops.iter().map(|r| r.inv).min().unwrap_or(sr.inv);
    let f = fold(h, s, v, false);
    let e_stream = notif_stream(h, s, &f);
    let pos = stream_index(&e_stream);
    for si in &iters {
        let t = sub_times(h, si.id);
        if t.add_ret == 0 || t.add_ret > first_shutdown {
            continue;
        }
        if !h.evs.iter().any(|e| e.k == K::ItInv && e.idx == si.id) {
            continue; // never read (dropped unread): it owes nothing; what its drop does to others shows there
        }
        let items: Vec<&Ev> = h.evs.iter().filter(|e| e.k == K::ItNext && e.idx == si.id).collect();
        let dropped_early = h.evs.iter().any(|e| e.k == K::ItDropInv && e.idx == si.id && e.r == 1);
        let mut last: Option<usize> = None;
        let mut ended = false;
        let mut nones = 0;
        let mut during = 0u64;
        let last_dispatch_ret = h.disp.values().map(|d| d.ret).filter(|r| *r != INF).max().unwrap_or(0);
        for e in &items {
            if e.a == 0 && e.r != 3 {
                ended = true;
                nones += 1;
                continue;
            }
            if ended {
                v.fail("C14", format!("store {}: iterator {} yielded {} after it had returned None (seq {})", s, si.id, id_str(e.a), e.seq));
                continue;
            }
            match pos.get(&e.a) {
                None => {
                    // whether a vetoed action still notifies is left unspecified: accept it in place
                    if !sh.acts.get(&e.a).map(|ar| ar.vetoed()).unwrap_or(false) {
                        v.fail("C14", format!("store {}: iterator {} yielded {} which is not a notifying action (seq {})", s, si.id, id_str(e.a), e.seq));
                    }
                }
                Some(&p) => {
                    if e_stream[p].1 != e.x || e.r != 1 {
                        v.fail("C14", format!("store {}: iterator {} yielded {} with a state that is not the one this action produced (seq {})", s, si.id, id_str(e.a), e.seq));
                    }
                    if let Some(l) = last {
                        if p <= l {
                            v.fail("C14", format!("store {}: iterator {} yielded {} {} (stream position {} after {})", s, si.id, id_str(e.a), if p == l { "twice" } else { "out of order" }, p, l));
                        } else if p != l + 1 {
                            v.fail("C14", format!("store {}: iterator {} skipped {} pair(s) before {} (gap)", s, si.id, p - l - 1, id_str(e.a)));
                        }
                    }
                    last = Some(p);
                    if e.seq < last_dispatch_ret {
                        during += 1;
                    }
                }
            }
        }
        if dropped_early {
            continue;
        }
        // every notifying action dispatched after iter() returned is yielded; the stream runs to the end
        let yielded: HashSet<u32> = items.iter().filter(|e| e.a != 0).map(|e| e.a).collect();
        for (a, _, _, _) in &e_stream {
            if let Some(d) = h.disp.get(a) {
                if d.inv > t.add_ret && !yielded.contains(a) {
                    v.fail("C14", format!("store {}: iterator {} (created at seq {}) never yielded {} which was dispatched afterwards (seq {})", s, si.id, t.add_ret, id_str(*a), d.inv));
                }
            }
        }
        if let (Some(l), false) = (last, e_stream.is_empty()) {
            if l != e_stream.len() - 1 {
                v.fail("C14", format!("store {}: iterator {} ended at stream position {} but the stream has {} pairs (remaining pairs not yielded after stop)", s, si.id, l, e_stream.len()));
            }
        }
        if !ended {
            v.fail("C14", format!("store {}: iterator {} never returned None although the store was stopped", s, si.id));
        } else if nones < 3 {
            v.fail("C14", format!("store {}: iterator {} did not keep returning None ({} None results in 3 calls)", s, si.id, nones));
        }
        v.count("c14.items_checked", yielded.len() as u64);
        v.count("c14.items_consumed_while_producers_running", during);
        if during >= 1 && ended {
            v.nontrivial.insert("C14");
        }
    }
}

pub fn c16(h: &Hist, s: u8, v: &mut Verdicts) {
    let marks: Vec<&Ev> = h.evs.iter().filter(|e| e.k == K::Mark && e.idx == MARK_SELRACE).collect();
    if !marks.is_empty() {
        v.evaluated.insert("C16");
        let rounds = if cfg!(miri) { 5 } else { 120 };
        for m in marks {
            let how = if m.store == 0 { "in lock step (one new value per round)" } else { "each at its own pace" };
            if m.store == 2 {
                if m.x == u64::MAX - 1 {
                    v.fail("C16", format!("a SelectorSubscriber whose callback for value 1 was still running (parked) was presented value 2 by another thread: {} deliveries were made, expected 1 then 2 (a notification arriving while the instance is busy must wait its turn, not be dropped)", m.y));
                }
                continue;
            }
            if m.x == u64::MAX - 1 {
                v.fail("C16", format!("a SelectorSubscriber notified by {} threads at once, {}: its {} deliveries are not what the calls presented{}", m.r, how, m.y, if m.store == 0 { " (one per round, that round's value)" } else { "" }));
            } else if m.x != u64::MAX {
                v.fail("C16", format!("a SelectorSubscriber notified by {} threads at once, {}, delivered the value {} twice in a row (deliveries #{} and #{} of {}): comparing with the last delivered value, remembering the new one and delivering it are not one atomic step", m.r, how, m.a, m.x, m.x + 1, m.y));
            }
        }
        v.count("c16.concurrent_notify_rounds", 2 * rounds);
        v.nontrivial.insert("C16");
        return;
    }
    let sels: Vec<&SubInfo> = h.subs.iter().filter(|si| si.store == s && si.kind == SK_SELECTOR).collect();
    if sels.is_empty() {
        return;
    }
    v.evaluated.insert("C16");
    if stop_timed_out(h, s) {
        v.inconcl("C16", "stop() hit its timeout".into());
        return;
    }
    let sh = &h.st[s as usize];
    let first_shutdown = sh.stops.iter().map(|r| r.inv).min().unwrap_or(INF);
    let f = fold(h, s, v, false);
    let e_stream = notif_stream(h, s, &f);
    let pos = stream_index(&e_stream);
    for si in &sels {
        let t = sub_times(h, si.id);
        if t.add_ret == 0 || t.add_ret > first_shutdown {
            continue;
        }
        let cbs: Vec<(u32, u8)> = h.evs.iter().filter(|e| e.k == K::SelCb && e.idx == si.id).map(|e| (e.a, e.x as u8)).collect();
        if !t.uinv.is_empty() {
            // unsubscribed mid-stream: where its stream ends is not observable from outside (and one
            // notification may still be in flight, see C09); whatever it was shown, the callbacks carry
            // the right value for their action, in stream order, and never the same value twice in a row
            let mut lastp: Option<usize> = None;
            for (k, (a, val)) in cbs.iter().enumerate() {
                match pos.get(a) {
                    None => v.fail("C16", format!("store {}: selector subscription {}: callback for {} which is not a notifying action", s, si.id, id_str(*a))),
                    Some(&p) => {
                        if e_stream[p].2 != *val {
                            v.fail("C16", format!("store {}: selector subscription {}: callback for {} delivered value {} but that action selected {}", s, si.id, id_str(*a), val, e_stream[p].2));
                        }
                        if let Some(l) = lastp {
                            if p <= l {
                                v.fail("C16", format!("store {}: selector subscription {}: callbacks out of stream order at {}", s, si.id, id_str(*a)));
                            }
                        }
                        lastp = Some(p);
                    }
                }
                if k > 0 && cbs[k - 1].1 == *val {
                    v.fail("C16", format!("store {}: selector subscription {}: the callback delivered value {} twice in a row (for {} and {}): the selected value had not changed", s, si.id, val, id_str(cbs[k - 1].0), id_str(*a)));
                }
            }
            v.count("c16.live_callbacks_checked", cbs.len() as u64);
            continue;
        }
        // the stream it was shown starts somewhere between "first action whose notification could
        // include it" and "first action the twin saw" (the twin was registered right after it)
        let tw_first = si.twin.and_then(|tw| h.evs.iter().find(|e| e.k == K::SBeg && e.idx == tw)).and_then(|e| pos.get(&e.a).copied()).unwrap_or(e_stream.len());
        // an action's subscriber snapshot is taken before the next action's first reducer-context event:
        // the subscription can be part of it iff its registration was invoked before that moment
        let next_first: HashMap<u32, u64> = sh.taken.windows(2).map(|w2| (w2[0], sh.acts[&w2[1]].first)).collect();
        let lo = e_stream.iter().position(|x| next_first.get(&x.0).copied().unwrap_or(INF) > t.add_inv).unwrap_or(e_stream.len());
        let hi = tw_first.max(lo);
        let mut ok = false;
        let mut best = String::new();
        for i0 in lo..=hi.min(e_stream.len()) {
            let mut exp: Vec<(u32, u8)> = Vec::new();
            let mut lastv: Option<u8> = None;
            for x in &e_stream[i0..] {
                if lastv != Some(x.2) {
                    exp.push((x.0, x.2));
                    lastv = Some(x.2);
                }
            }
            if exp == cbs {
                ok = true;
                break;
            }
            if best.is_empty() {
                let k = exp.iter().zip(cbs.iter()).take_while(|(a, b)| a == b).count();
                best = format!("first difference at callback #{}: expected {:?}, got {:?} (expected {} callbacks, got {})", k, exp.get(k).map(|x| (id_str(x.0), x.1)), cbs.get(k).map(|x| (id_str(x.0), x.1)), exp.len(), cbs.len());
            }
        }
        if !ok {
            v.fail("C16", format!("store {}: selector subscription {}: callbacks are not the de-duplicated selected values of the notification stream ({})", s, si.id, best));
        }
        v.count("c16.live_callbacks_checked", cbs.len() as u64);
        let vals: Vec<u8> = e_stream.iter().map(|x| x.2).collect();
        let has_repeat = vals.windows(2).any(|w| w[0] == w[1]);
        let has_change = vals.windows(2).any(|w| w[0] != w[1]);
        if has_repeat && has_change {
            v.nontrivial.insert("C16");
        }
    }
}

pub fn run(seed: u64, tiny: bool, focus: &str) -> Outcome {
    let mut rng = Rng::new(seed);
    let c = gen(&mut rng, tiny, focus);
    let w = execute(&c, seed);
    let h = Hist::from_world(&w);
    let mut v = Verdicts::default();
    c09(&h, 0, &mut v);
    c10(&h, 0, &mut v);
    c14(&h, 0, &mut v);
    c16(&h, 0, &mut v);
    c03(&h, 0, &mut v);
    c07(&h, 0, &mut v);
    crate::fam_b::c04(&h, 0, &mut v, "C04");
    Outcome::new(describe(&c), h, v)
}
