//! Family H: builder enumeration. Every sequence of builder calls up to a length bound over the
//! full option alphabet is built on the real StoreBuilder and compared with a record-of-last-settings
//! model; every Ok result is probed behaviourally (thread name, chain order, middleware order,
//! queue bound, drop behaviour). Feeds C17.

use crate::core::*;
use crate::hist::*;
use crate::json::J;
use crate::script::*;
use crate::world::*;
use crate::Outcome;
use rs_store::*;
use std::collections::HashSet;
use std::sync::Arc;

pub const N_CALLS: u64 = 18;
const CALL_NAMES: [&str; 18] = [
    "with_name(\"alpha\")",
    "with_name(\" beta \")",
    "with_name(\"\")",
    "with_reducer(R10)",
    "with_reducers([R20,R21])",
    "with_reducers([])",
    "add_reducer(R30)",
    "without_reducer()",
    "with_capacity(0)",
    "with_capacity(1)",
    "with_capacity(3)",
    "with_policy(BlockOnFull)",
    "with_policy(DropOldest)",
    "with_policy(DropLatest)",
    "with_middleware(M10)",
    "with_middlewares([M20,M21])",
    "add_middleware(M30)",
    "with_name(\" \")",
];

#[derive(Clone, Debug, PartialEq)]
pub struct Model {
    pub name: String,
    pub reds: Vec<u32>,
    pub without: bool,
    pub cap: usize,
    pub pol: u8,
    pub mws: Vec<u32>,
    /// without_reducer() followed by a with_reducer(s) call that leaves the list empty: left open
    pub open_case: bool,
}

pub fn model(ctor: u8, calls: &[u8]) -> Model {
    let mut m = Model { name: "store".into(), reds: if ctor == 1 { vec![1] } else { vec![] }, without: false, cap: 16, pol: POL_BLOCK, mws: vec![], open_case: false };
    let mut with_after_without = false;
    for c in calls {
        match c {
            0 => m.name = "alpha".into(),
            1 => m.name = " beta ".into(),
            2 => m.name = "".into(),
            3 => {
                m.reds = vec![10];
                if m.without {
                    with_after_without = true;
                }
            }
            4 => {
                m.reds = vec![20, 21];
                if m.without {
                    with_after_without = true;
                }
            }
            5 => {
                m.reds = vec![];
                if m.without {
                    with_after_without = true;
                }
            }
            6 => m.reds.push(30),
            7 => {
                m.without = true;
                with_after_without = false;
            }
            8 => m.cap = 0,
            9 => m.cap = 1,
            10 => m.cap = 3,
            11 => m.pol = POL_BLOCK,
            12 => m.pol = POL_OLDEST,
            13 => m.pol = POL_LATEST,
            14 => m.mws = vec![10],
            15 => m.mws = vec![20, 21],
            17 => m.name = " ".into(),
            _ => m.mws.push(30),
        }
    }
    m.open_case = with_after_without && m.reds.is_empty();
    m
}

impl Model {
    pub fn expect_err(&self) -> bool {
        self.cap == 0 || self.name.is_empty() || (self.reds.is_empty() && !self.without)
    }
}

fn red(ctx: &Arc<Ctx>, tag: u32) -> Box<dyn Reducer<St, Act> + Send + Sync> {
    Box::new(ScriptedReducer { ctx: ctx.clone(), store: 0, idx: tag })
}
fn mw(ctx: &Arc<Ctx>, tag: u32) -> Arc<dyn Middleware<St, Act> + Send + Sync> {
    Arc::new(ScriptedMw { ctx: ctx.clone(), store: 0, idx: tag })
}

pub fn build(ctx: &Arc<Ctx>, ctor: u8, calls: &[u8]) -> Result<Arc<RStore>, StoreError> {
    let mut b = if ctor == 1 { StoreBuilder::new_with_reducer(St::initial(0), red(ctx, 1)) } else { StoreBuilder::new(St::initial(0)) };
    // the very same instance is handed to every add_middleware(M30) call of a sequence
    let m30 = mw(ctx, 30);
    for c in calls {
        b = match c {
            0 => b.with_name("alpha".into()),
            1 => b.with_name(" beta ".into()),
            2 => b.with_name("".into()),
            3 => b.with_reducer(red(ctx, 10)),
            4 => b.with_reducers(vec![red(ctx, 20), red(ctx, 21)]),
            5 => b.with_reducers(vec![]),
            6 => b.add_reducer(red(ctx, 30)),
            7 => b.without_reducer(),
            8 => b.with_capacity(0),
            9 => b.with_capacity(1),
            10 => b.with_capacity(3),
            11 => b.with_policy(BackpressurePolicy::BlockOnFull),
            12 => b.with_policy(BackpressurePolicy::DropOldest),
            13 => b.with_policy(BackpressurePolicy::DropLatest),
            14 => b.with_middleware(mw(ctx, 10)),
            15 => b.with_middlewares(vec![mw(ctx, 20), mw(ctx, 21)]),
            17 => b.with_name(" ".into()),
            _ => b.add_middleware(m30.clone()),
        };
    }
    b.build()
}

pub fn seq_str(ctor: u8, calls: &[u8]) -> String {
    let mut s = if ctor == 1 { "StoreBuilder::new_with_reducer(s, R1)".to_string() } else { "StoreBuilder::new(s)".to_string() };
    for c in calls {
        s += ".";
        s += CALL_NAMES[*c as usize];
    }
    s + ".build()"
}

/// enumeration index -> (constructor, call sequence); sequences of length 0..=maxlen
pub fn decode(mut n: u64, maxlen: u32) -> Option<(u8, Vec<u8>)> {
    let per_ctor: u64 = (0..=maxlen).map(|l| N_CALLS.pow(l)).sum();
    if n >= 2 * per_ctor {
        return None;
    }
    let ctor = (n / per_ctor) as u8;
    n %= per_ctor;
    let mut len = 0;
    while n >= N_CALLS.pow(len) {
        n -= N_CALLS.pow(len);
        len += 1;
    }
    let mut calls = Vec::new();
    for _ in 0..len {
        calls.push((n % N_CALLS) as u8);
        n /= N_CALLS;
    }
    Some((ctor, calls))
}

pub fn space(maxlen: u32) -> u64 {
    2 * (0..=maxlen).map(|l| N_CALLS.pow(l)).sum::<u64>()
}

const MARK_BURST_DONE: u32 = 3;

/// Behavioural probe of a built store against the model. Returns the world for the oracle.
fn probe(ctx: Arc<Ctx>, st: Arc<RStore>, m: &Model) -> W {
    let w = W::from_store(ctx, StoreCfg { policy: m.pol, cap: m.cap, n_red: m.reds.len() as u32, n_mw: m.mws.len() as u32, name: m.name.clone(), ctor: 0 }, st);
    let counter = Arc::new(Counter::new());
    // sentinel subscriber: gated (parks for the plug if there is neither reducer nor middleware)
    let id = {
        let mut subs = w.subs.lock().unwrap();
        let id = subs.len() as u32;
        subs.push(SubInfo { id, store: 0, kind: SK_DIRECT, cap: 0, policy: 0, twin: None, at_build: true, shared: false });
        id
    };
    let mut sub = w.mk_sub(0, id, 0, false, 0);
    sub.counter = Some(counter.clone());
    let _sn = w.add_sub_arc(0, id, Arc::new(sub), false);
    let plug_script = if !m.reds.is_empty() {
        1
    } else if !m.mws.is_empty() {
        2
    } else {
        3
    };
    let n = m.cap + 2;
    let returned = Counter::new();
    let gate = &w.ctx.gates[0];
    w.dispatch(0, EP_INHERENT, Act { id: act_id(0, 50, 1), script: plug_script });
    if !gate.wait_parked(1) {
        w.mark(900, 1);
        return w;
    }
    w.mark(2, 0);
    std::thread::scope(|sc| {
        let h = {
            let w = &w;
            let returned = &returned;
            std::thread::Builder::new().name("burst".into()).spawn_scoped(sc, move || {
                for k in 0..n {
                    w.dispatch(0, EP_DISPATCHER, Act { id: act_id(0, 1, k as u32 + 1), script: 0 });
                    returned.add(1);
                }
            }).unwrap()
        };
        let need = if m.pol == POL_BLOCK { m.cap as u64 } else { n as u64 };
        // if the configured capacity/policy is not what the store uses this wait never completes:
        // every thread is then asleep and the watchdog reports the scenario as stuck
        returned.wait_at_least(need, 120);
        if m.pol == POL_BLOCK && !cfg!(miri) {
            std::thread::sleep(std::time::Duration::from_micros(300));
        }
        w.mark(MARK_BURST_DONE, 0);
        gate.open();
        h.join().unwrap();
    });
    let expect_notified = 1 + if m.pol == POL_BLOCK { n as u64 } else { (m.cap as u64).min(n as u64) };
    counter.wait_at_least(expect_notified, 2);
    w.stop(0, STOP_STOP);
    w
}

fn check_probe(h: &Hist, m: &Model, seq: &str, v: &mut Verdicts) {
    let sh = &h.st[0];
    if h.evs.iter().any(|e| e.k == K::Mark && e.idx == 900) {
        v.inconcl("C17", "probe gave up".into());
        return;
    }
    // worker thread name prefix
    for t in &sh.rc_tids {
        let name = h.names.get(*t as usize).cloned().unwrap_or_default();
        if !name.starts_with(&format!("{}-pool", m.name)) {
            v.fail("C17", format!("{}: reducer context runs on thread '{}', expected prefix '{}-pool'", seq, name, m.name));
        }
    }
    // chain and middleware order, per action
    for a in &sh.taken {
        let ar = &sh.acts[a];
        let reds: Vec<u32> = ar.reduces.iter().map(|r| r.ridx).collect();
        if reds != m.reds {
            v.fail("C17", format!("{}: action {} went through reducers {:?}, configured {:?}", seq, id_str(*a), reds, m.reds));
            break;
        }
        for hook in 0..3u32 {
            let ms: Vec<u32> = ar.mws.iter().filter(|x| x.hook == hook).map(|x| x.midx).collect();
            if ms != m.mws && !(hook == 2 && ms.is_empty()) {
                v.fail("C17", format!("{}: action {} hook phase {} called middlewares {:?}, configured {:?}", seq, id_str(*a), hook, ms, m.mws));
                break;
            }
        }
    }
    // queue bound while parked + survivors
    let m2 = h.evs.iter().find(|e| e.k == K::Mark && e.idx == 2).map(|e| e.seq).unwrap_or(0);
    let m3 = h.evs.iter().find(|e| e.k == K::Mark && e.idx == MARK_BURST_DONE).map(|e| e.seq).unwrap_or(INF);
    let returned_in_window = h.evs.iter().filter(|e| e.k == K::DRet && id_producer(e.a) == 1 && e.seq > m2 && e.seq < m3).count();
    let n = m.cap + 2;
    let burst: Vec<u32> = (0..n).map(|k| act_id(0, 1, k as u32 + 1)).collect();
    let survived: Vec<u32> = sh.taken.iter().copied().filter(|a| id_producer(*a) == 1).collect();
    let in_t: HashSet<u32> = survived.iter().copied().collect();
    let expect: Vec<u32> = match m.pol {
        POL_BLOCK => burst.clone(),
        POL_OLDEST => burst[n - m.cap..].to_vec(),
        _ => burst[..m.cap].to_vec(),
    };
    if m.pol == POL_BLOCK && returned_in_window > m.cap {
        v.fail("C17", format!("{}: with the pipeline parked {} dispatches returned, configured capacity is {}", seq, returned_in_window, m.cap));
    }
    if survived != expect {
        v.fail(
            "C17",
            format!("{}: after a burst of {} with the pipeline parked the reduced actions were {:?}, expected {:?} (capacity {}, {})", seq, n, survived.iter().map(|a| id_seq(*a)).collect::<Vec<_>>(), expect.iter().map(|a| id_seq(*a)).collect::<Vec<_>>(), m.cap, POL_NAMES[m.pol as usize]),
        );
    }
    let _ = in_t;
}

/// run builds [start, start+count) of the enumeration (or random longer sequences when `random`)
pub fn run(seed: u64, index: u64, tiny: bool, thorough: bool) -> Outcome {
    let maxlen: u32 = if thorough { 4 } else { 3 };
    let chunk: u64 = if tiny { 2 } else { 64 };
    let sp = space(maxlen);
    let n_chunks = (sp + chunk - 1) / chunk;
    let mut v = Verdicts::default();
    v.evaluated.insert("C17");
    let mut last_h: Option<Hist> = None;
    let mut fail_h: Option<Hist> = None;
    let (mut builds, mut oks, mut errs, mut open_cases) = (0u64, 0u64, 0u64, 0u64);
    let mut sample = Vec::new();
    let mut rng = Rng::new(mix(seed, index));
    let random_mode = index >= n_chunks;
    for j in 0..chunk {
        let (ctor, calls) = if random_mode {
            let len = rng.range(5, 8);
            (rng.below(2) as u8, (0..len).map(|_| rng.below(N_CALLS) as u8).collect::<Vec<u8>>())
        } else {
            match decode(index * chunk + j, maxlen) {
                Some(x) => x,
                None => break,
            }
        };
        let m = model(ctor, &calls);
        let seq = seq_str(ctor, &calls);
        let mut scripts = vec![Script::plain(), Script::plain(), Script::plain(), Script::plain()];
        scripts[1].rgate = 0;
        scripts[1].rgate_idx = m.reds.first().copied().unwrap_or(0);
        scripts[2].rgate = 0;
        scripts[2].mgate_idx = m.mws.first().copied().unwrap_or(0) as u8;
        scripts[3].sgate = true;
        let ctx = Ctx::new(ScriptSrc::Table(scripts), 1, seed, 0, false);
        let r = build(&ctx, ctor, &calls);
        builds += 1;
        if sample.len() < 3 {
            sample.push(J::s(format!("{} -> {}", seq, if r.is_ok() { "Ok" } else { "Err" })));
        }
        let before = v.findings.len();
        match r {
            Err(e) => {
                errs += 1;
                if m.open_case {
                    open_cases += 1;
                } else if !m.expect_err() {
                    v.fail("C17", format!("{} returned Err({}) but capacity is {}, the name is '{}' and {}", seq, e, m.cap, m.name, if m.reds.is_empty() { "without_reducer() was requested" } else { "reducers are configured" }));
                } else if !matches!(e, StoreError::InitError(_)) {
                    v.fail("C17", format!("{} failed with {:?}, expected an initialisation error", seq, e));
                }
            }
            Ok(st) => {
                oks += 1;
                if m.open_case {
                    open_cases += 1;
                }
                if m.expect_err() && !m.open_case {
                    v.fail("C17", format!("{} returned Ok although {}", seq, if m.cap == 0 { "the capacity is zero" } else if m.name.is_empty() { "the name is empty" } else { "there is no reducer and without_reducer() was not requested" }));
                    StoreImpl::stop(&st);
                } else if m.expect_err() {
                    StoreImpl::stop(&st);
                } else {
                    let w = probe(ctx.clone(), st, &m);
                    let h = Hist::from_world(&w);
                    check_probe(&h, &m, &seq, &mut v);
                    if v.findings.len() > before && fail_h.is_none() {
                        fail_h = Some(h);
                    } else {
                        last_h = Some(h);
                    }
                }
            }
        }
    }
    v.count("c17.builds", builds);
    v.count("c17.build_ok_probed", oks);
    v.count("c17.build_err", errs);
    v.count("c17.left_open_cases", open_cases);
    if builds > 0 {
        v.nontrivial.insert("C17");
    }
    let desc = J::obj(vec![
        ("family", J::s("H")),
        ("chunk_index", J::U(index)),
        ("mode", J::s(if random_mode { "random sequences of length 5-8".to_string() } else { format!("exhaustive, sequences up to length {}", maxlen) })),
        ("builds", J::U(builds)),
        ("first_sequences", J::A(sample)),
    ]);
    let h = fail_h.or(last_h).unwrap_or_else(|| {
        let ctx = Ctx::new(ScriptSrc::Table(vec![Script::plain()]), 1, seed, 0, false);
        Hist::build(vec![], vec![], ctx, vec![], vec![], vec![], vec![])
    });
    let mut o = Outcome::new(desc, h, v);
    o.fp_override = Some(mix(index, if random_mode { seed } else { maxlen as u64 }));
    o
}
