//! Family F: middleware verdict matrix. Every assignment of {Continue, Done, Break, Err} to the three
//! hooks of 1..3 middlewares x {Dispatch, Keep} is executed on a live store and compared with an
//! executable reference model. Feeds C12.

use crate::core::*;
use crate::hist::*;
use crate::json::J;
use crate::oracle_a::*;
use crate::script::*;
use crate::world::*;
use crate::Outcome;
use std::collections::HashMap;

pub const BATCH: u64 = 2048;
pub const B1: u64 = 4; // M=1: 64 assignments x 2 answers x 64 effect variants = 8192
pub const B2: u64 = 4; // M=2: 4096 x 2 = 8192 (effect variant pseudo-random)
pub const B3: u64 = 256; // M=3: 262144 x 2 = 524288
pub const N_RED: u32 = 2;

/// scenario index -> (M, list of script numbers)
pub fn batch(seed: u64, index: u64) -> (u32, Vec<u32>) {
    let index = index % (B1 + B2 + B3);
    let mut rng = Rng::new(mix(seed, index));
    let mut v: Vec<u32> = Vec::with_capacity(BATCH as usize);
    let m;
    if index < B1 {
        m = 1;
        for j in 0..BATCH {
            let n = index * BATCH + j; // 0..8192: assignment(6 bits) | keep | variant(6 bits)
            let asg = (n & 63) as u32;
            let keep = ((n >> 6) & 1) as u32;
            let var = ((n >> 7) & 63) as u32;
            v.push(asg | (keep << 31) | (var << 24));
        }
    } else if index < B1 + B2 {
        m = 2;
        for j in 0..BATCH {
            let n = (index - B1) * BATCH + j;
            let asg = (n & 4095) as u32;
            let keep = ((n >> 12) & 1) as u32;
            v.push(asg | (keep << 31) | ((rng.below(64) as u32) << 24));
        }
    } else {
        m = 3;
        // batches of the M=3 space are visited in a seed-dependent order
        let b = (index - B1 - B2 + mix(seed, 3) % B3) % B3;
        for j in 0..BATCH {
            let n = b * BATCH + j;
            let asg = (n & 262143) as u32;
            let keep = ((n >> 18) & 1) as u32;
            v.push(asg | (keep << 31) | ((rng.below(64) as u32) << 24));
        }
    }
    // shuffled so that leakage between consecutive actions is exercised in varying neighbourhoods
    for i in (1..v.len()).rev() {
        let j = rng.below(i as u64 + 1) as usize;
        v.swap(i, j);
    }
    (m, v)
}

/// `late`: the last of the m middlewares is registered with add_middleware() from another thread while
/// middleware 0 is parked inside before_reduce of a first (parking) action; the batch follows.
pub fn execute(m: u32, scripts: &[u32], seed: u64, with_sub: bool, late: bool) -> W {
    let ctx = Ctx::new_opts(ScriptSrc::Verdicts, 1, seed, 0, false, true);
    let w = W::new(ctx, vec![StoreCfg { policy: POL_BLOCK, cap: 16, n_red: N_RED, n_mw: if late { m - 1 } else { m }, name: "rsvf".into(), ctor: 0 }]);
    // a store without any subscriber must still run the before_dispatch hooks
    let keep = if with_sub { Some(w.add_direct(0, NOGATE, false, true, false)) } else { None };
    if late {
        w.dispatch(0, EP_INHERENT, Act { id: act_id(0, 62, 1), script: 1 << 30 });
        let parked = w.ctx.gates[0].wait_parked(1);
        std::thread::scope(|sc| {
            let w = &w;
            let t = std::thread::Builder::new().name("late-mw".into()).spawn_scoped(sc, move || w.add_middleware(0)).unwrap();
            // (in the unmodified code the call waits for the running chain: the list is locked)
            crate::fam_a::wait_until(|| crate::fam_a::count_where(w, |e| e.k == K::AddInv && e.r == REG_MW) >= 1);
            for _ in 0..50 {
                std::thread::yield_now();
            }
            w.ctx.gates[0].open();
            t.join().unwrap();
        });
        if !parked {
            w.mark(900, 1);
        }
    } else {
        w.ctx.gates[0].open();
    }
    let mut exp_runs = 0u64;
    for (k, sn) in scripts.iter().enumerate() {
        let id = act_id(0, 1 + (k as u32 >> 13), (k as u32 & 0x1fff) + 1);
        exp_runs += model_runs(&decode_verdict_script(*sn), m);
        w.dispatch(0, EP_INHERENT, Act { id, script: *sn });
    }
    // tail action (all Continue, Dispatch, no effects): once the subscriber has seen it the reducer
    // is past every effect phase, so stop() cannot overtake an effect submission (that race is the
    // C11 known finding and is kept out of this check)
    let tail = act_id(0, 63, 1);
    w.dispatch(0, EP_INHERENT, Act { id: tail, script: 0 });
    crate::fam_a::wait_until(|| {
        let bufs = w.ctx.log.bufs.lock().unwrap();
        // the tail's notification (or, without a subscriber, its last before_effect hook) has ended:
        // the effects of every earlier action have been submitted
        bufs.iter().any(|(_, b)| b.lock().unwrap().iter().rev().take(64).any(|e| e.a == tail && ((e.k == K::SEnd) || (!with_sub && e.k == K::MEnd && e.idx == (m - 1) * 4 + 1))))
    });
    // effects already submitted run before stop() returns; waiting here only keeps them off the
    // pool's shutdown path (cap: detection of a missing run does not depend on it)
    w.ctx.c_eff.wait_at_least(exp_runs, 3);
    w.stop(0, STOP_STOP);
    w.read(0);
    drop(keep);
    w
}

/// number of effect bodies the reference model expects to run for one action
fn model_runs(sc: &Script, m_n: u32) -> u64 {
    let mut vetoed = false;
    for m in 0..m_n as usize {
        if sc.mw[m][0] == V_DONE {
            vetoed = true;
        }
        if sc.mw[m][0] == V_BREAK {
            break;
        }
    }
    if vetoed {
        return 0;
    }
    let mut list: Vec<u32> = (0..N_RED.min(4)).filter(|r| sc.eff[*r as usize].is_some()).collect();
    for m in 0..m_n as usize {
        let mask = sc.mw_remove[m];
        let mut pos = 0;
        list.retain(|_| {
            let k = pos >= 8 || mask & (1 << pos) == 0;
            pos += 1;
            k
        });
        if sc.mw[m][1] == V_BREAK {
            break;
        }
    }
    list.len() as u64
}

fn vname(v: u8) -> &'static str {
    ["Continue", "Done", "Break", "Err", "?"][(v as usize).min(4)]
}

pub fn c12(h: &Hist, s: u8, v: &mut Verdicts) -> u64 {
    let sh = &h.st[s as usize];
    let cfg = &h.cfg[s as usize];
    v.evaluated.insert("C12");
    if stop_timed_out(h, s) {
        v.inconcl("C12", "stop() hit its timeout".into());
        return 0;
    }
    let _ = cfg;
    if h.evs.iter().any(|e| e.k == K::Mark && e.idx == 900) {
        v.inconcl("C12", "the parking action did not park".into());
        return 0;
    }
    // (every enumerated action is dispatched after the last registration has returned)
    let m_n = h.n_mw_final[s as usize];
    let mut cur = St::initial(s);
    let has_sub = h.subs.iter().any(|x| x.kind == SK_DIRECT);
    let sub_id = h.subs.iter().find(|x| x.kind == SK_DIRECT).map(|x| x.id).unwrap_or(u32::MAX);
    let mut runs: HashMap<(u32, u32), u32> = HashMap::new();
    for e in h.evs.iter().filter(|e| e.k == K::EBeg) {
        *runs.entry((e.a, e.idx)).or_insert(0) += 1;
    }
    let mut pairs = 0u64;
    let mut fails = 0;
    macro_rules! bad {
        ($($arg:tt)*) => {{
            fails += 1;
            if fails <= 12 {
                v.fail("C12", format!($($arg)*));
            }
        }};
    }
    for a in &sh.taken {
        let ar = &sh.acts[a];
        let z = match h.disp.get(a) {
            Some(d) => d.z,
            None => continue,
        };
        if id_producer(*a) == 63 || id_producer(*a) == 62 {
            // tail action: part of the fold, not of the enumeration
            let sc0 = h.ctx.script(z);
            let act = Act { id: *a, script: z };
            for r in &ar.reduces {
                cur = cur.apply(r.ridx, &act, &sc0);
            }
            continue;
        }
        let sc = h.ctx.script(z);
        pairs += 1;
        let desc = || {
            let mut t = String::new();
            for m in 0..m_n as usize {
                t += &format!("mw{}[{},{},{}] ", m, vname(sc.mw[m][0]), vname(sc.mw[m][1]), vname(sc.mw[m][2]));
            }
            format!("{}({}answer {})", id_str(*a), t, if sc.keep != 0 { "Keep" } else { "Dispatch" })
        };
        // expected prefix of hooks for a phase
        let prefix = |hook: usize| -> Vec<u32> {
            let mut l = Vec::new();
            for m in 0..m_n {
                l.push(m);
                if sc.mw[m as usize][hook] == V_BREAK {
                    break;
                }
            }
            l
        };
        let called = |hook: u32| -> Vec<&MwRec> { ar.mws.iter().filter(|x| x.hook == hook).collect() };
        // ---- before_reduce
        let exp0 = prefix(0);
        let got0 = called(0);
        if got0.iter().map(|x| x.midx).collect::<Vec<_>>() != exp0 {
            bad!("{}: before_reduce hooks called {:?}, expected {:?} (BreakChain skips only the remaining middlewares of the phase)", desc(), got0.iter().map(|x| x.midx).collect::<Vec<_>>(), exp0);
        }
        for x in &got0 {
            if x.x != cur.digest() {
                bad!("{}: before_reduce of middleware {} did not receive the state before the action", desc(), x.midx);
            }
        }
        let vetoed = exp0.iter().any(|m| sc.mw[*m as usize][0] == V_DONE);
        // ---- reducers
        let before = cur.clone();
        if vetoed {
            if !ar.reduces.is_empty() {
                bad!("{}: a before_reduce hook answered DoneAction but {} reducer call(s) ran", desc(), ar.reduces.len());
            }
        } else {
            if ar.reduces.len() != N_RED as usize || ar.reduces.iter().enumerate().any(|(i, r)| r.ridx != i as u32) {
                bad!("{}: reducers called {:?}, expected each of {} once in order", desc(), ar.reduces.iter().map(|r| r.ridx).collect::<Vec<_>>(), N_RED);
            }
            let act = Act { id: *a, script: z };
            for (i, r) in ar.reduces.iter().enumerate() {
                if r.xin != cur.digest() {
                    bad!("{}: reducer {} did not receive the previous state", desc(), i);
                }
                cur = cur.apply(r.ridx, &act, &sc);
            }
        }
        // ---- before_effect (always called by the code; unspecified for vetoed actions)
        let got1 = called(1);
        let exp1 = prefix(1);
        let got1_ids: Vec<u32> = got1.iter().map(|x| x.midx).collect();
        if !(got1_ids == exp1 || (vetoed && got1_ids.is_empty())) {
            bad!("{}: before_effect hooks called {:?}, expected {:?}", desc(), got1_ids, exp1);
        }
        let mut list: Vec<u32> = if vetoed { vec![] } else { (0..N_RED.min(4)).filter(|r| sc.eff[*r as usize].is_some()).collect() };
        let mut removed: Vec<u32> = Vec::new();
        for x in &got1 {
            if x.x != cur.digest() {
                bad!("{}: before_effect of middleware {} did not receive the state after the action", desc(), x.midx);
            }
            if x.y != list.len() as u64 {
                bad!("{}: before_effect of middleware {} received {} effects, expected {} (list as left by the previous hook)", desc(), x.midx, x.y, list.len());
            }
            let mask = sc.mw_remove[x.midx as usize];
            let mut pos = 0;
            let mut keepl = Vec::new();
            for r in list.drain(..) {
                if pos < 8 && mask & (1 << pos) != 0 {
                    removed.push(r);
                } else {
                    keepl.push(r);
                }
                pos += 1;
            }
            list = keepl;
        }
        for r in &list {
            let kind = sc.eff[*r as usize].unwrap().kind as u32;
            let n = runs.get(&(*a, (r << 4) | kind)).copied().unwrap_or(0);
            if n != 1 {
                bad!("{}: effect of reducer {} was left in the list by the before_effect hooks but ran {} times", desc(), r, n);
            }
        }
        for r in &removed {
            let kind = sc.eff[*r as usize].unwrap().kind as u32;
            let n = runs.get(&(*a, (r << 4) | kind)).copied().unwrap_or(0);
            if n != 0 {
                bad!("{}: effect of reducer {} was removed in before_effect but ran {} times", desc(), r, n);
            }
        }
        // ---- before_dispatch
        let got2 = called(2);
        let got2_ids: Vec<u32> = got2.iter().map(|x| x.midx).collect();
        let exp2 = prefix(2);
        let notifying = sc.keep == 0;
        if notifying && !vetoed {
            if got2_ids != exp2 {
                bad!("{}: before_dispatch hooks called {:?}, expected {:?}", desc(), got2_ids, exp2);
            }
        } else if !(got2_ids.is_empty() || got2_ids == exp2) {
            bad!("{}: before_dispatch hooks called {:?}, expected none or {:?}", desc(), got2_ids, exp2);
        }
        for x in &got2 {
            if x.x != cur.digest() {
                bad!("{}: before_dispatch of middleware {} did not receive the state after the action", desc(), x.midx);
            }
        }
        let suppressed = got2_ids.iter().any(|m| sc.mw[*m as usize][2] == V_DONE);
        // ---- subscriber
        let nots: Vec<&NotRec> = ar.nots.iter().filter(|n| n.sub == sub_id).collect();
        if nots.len() > 1 {
            bad!("{}: subscriber notified {} times", desc(), nots.len());
        }
        if !notifying && !vetoed && !nots.is_empty() {
            bad!("{}: subscriber notified although the reducers answered Keep", desc());
        }
        if notifying && !vetoed {
            if suppressed && !nots.is_empty() {
                bad!("{}: subscriber notified although a before_dispatch hook answered DoneAction", desc());
            }
            if !suppressed && nots.is_empty() && has_sub {
                bad!("{}: subscriber not notified although no called before_dispatch hook answered DoneAction", desc());
            }
        }
        for n in &nots {
            if n.x != cur.digest() {
                bad!("{}: subscriber received a state that is not the current one", desc());
            }
        }
        if vetoed && cur != before {
            bad!("{}: state changed although the action was vetoed", desc());
        }
        // ---- errors: exactly one on_error per Err verdict on the middleware that returned it
        for x in &ar.mws {
            let want = if x.verdict == V_ERR { 1 } else { 0 };
            if x.errs != want {
                bad!("{}: middleware {} hook {} answered {} and received {} on_error calls (expected {})", desc(), x.midx, x.hook, vname(x.verdict), x.errs, want);
            }
        }
    }
    // errors reported for hooks that were not called at all
    let total_err_events = h.evs.iter().filter(|e| e.k == K::MErr).count() as u64;
    let total_err_verdicts = sh.acts.values().map(|ar| ar.mws.iter().filter(|x| x.verdict == V_ERR).count() as u64).sum::<u64>();
    if total_err_events != total_err_verdicts {
        v.fail("C12", format!("store {}: {} on_error calls for {} Err verdicts", s, total_err_events, total_err_verdicts));
    }
    // the state after stop() is the model's
    for e in h.of(K::GRet, s) {
        if e.idx == 0 && e.x != cur.digest() && first_stop(h, s).map(|sr| read_inv(h, e) > sr.ret).unwrap_or(false) {
            v.fail("C12", format!("store {}: final state differs from the reference model's", s));
        }
    }
    v.count("c12.assignment_answer_pairs_executed", pairs);
    v.count(&format!("c12.pairs_with_{}_middlewares", m_n), pairs);
    if pairs > 0 {
        v.nontrivial.insert("C12");
    }
    pairs
}

pub fn run(seed: u64, index: u64, tiny: bool) -> Outcome {
    let (m, mut scripts) = batch(seed, index);
    if tiny {
        scripts.truncate(6);
    }
    let with_sub = index % 2 == 0 || index < B1 + B2;
    let late = m >= 2 && index % 5 == 1;
    let w = execute(m, &scripts, seed, with_sub, late);
    let h = Hist::from_world(&w);
    let mut v = Verdicts::default();
    c12(&h, 0, &mut v);
    let desc = J::obj(vec![
        ("family", J::s("F")),
        ("middlewares", J::U(m as u64)),
        ("batch_index", J::U(index)),
        ("subscriber_registered", J::B(with_sub)),
        ("last_middleware_registered_while_a_before_reduce_chain_is_parked", J::B(late)),
        ("actions", J::U(scripts.len() as u64)),
        ("first_scripts", J::A(scripts.iter().take(6).map(|s| J::s(format!("{:#x}", s))).collect())),
    ]);
    let mut o = Outcome::new(desc, h, v);
    o.fp_override = Some(mix(m as u64, index % (B1 + B2 + B3)));
    o
}
