//! Family T: task hammer. 8-32 client threads hammer dispatch_task / dispatch_thunk on an otherwise idle
//! store while one thread calls stop() at a random moment in the middle of it; the hammering goes on for a
//! while after stop() has returned. Every task is identified (thread, number), stamps the shared logical
//! clock as its first act and counts its runs. Oracle (C11): no task runs twice; a task whose submitting call
//! had returned before stop() was invoked has run when stop() returns; no task begins after stop() has
//! returned. A stop() of >= 2.5 s makes the scenario inconclusive. Native only (the window that matters is a
//! preemption between two instructions of a submitter, lasting for a whole stop()).

use crate::core::*;
use crate::hist::*;
use crate::json::J;
use crate::script::*;
use crate::Outcome;
use rs_store::{Dispatcher, StoreImpl};
use std::sync::atomic::{AtomicBool, AtomicU32, AtomicU64, Ordering};
use std::sync::Arc;
use std::time::{Duration, Instant};

fn tick() -> u64 {
    PROGRESS.fetch_add(1, Ordering::Relaxed) + 1
}

struct Slot {
    runs: AtomicU32,
    began: AtomicU64,
}

pub fn run(seed: u64, tiny: bool, _focus: &str) -> Outcome {
    let mut rng = Rng::new(seed);
    let n_sub = if tiny { 3 } else { rng.range(8, 32) as usize };
    let per_max = if tiny { 40 } else { 40000usize };
    let after_stop = if tiny { 5 } else { rng.range(20, 200) as usize };
    let stop_delay_us = rng.range(0, 1500);
    // 0: tasks only, 1: thunks only, 2: alternating
    let kind = rng.below(3) as u8;
    let via_stop = rng.below(2) as u8; // 0: StoreImpl::stop, 1: close() then stop()
    let store = StoreImpl::<St, Act>::new(St::initial(0));
    let slots: Arc<Vec<Vec<Slot>>> = Arc::new((0..n_sub).map(|_| (0..per_max).map(|_| Slot { runs: AtomicU32::new(0), began: AtomicU64::new(0) }).collect()).collect());
    let stopped = Arc::new(AtomicBool::new(false));
    let go = Arc::new(AtomicBool::new(false));
    let mut stop_inv = 0u64;
    let mut stop_ret = 0u64;
    let mut stop_ms = 0u64;
    // per thread: (inv, ret) clock stamps of each submitting call
    let mut calls: Vec<Vec<(u64, u64)>> = Vec::new();
    std::thread::scope(|sc| {
        let mut hs = Vec::new();
        for t in 0..n_sub {
            let store = store.clone();
            let slots = slots.clone();
            let stopped = stopped.clone();
            let go = go.clone();
            hs.push(std::thread::Builder::new().name(format!("sub{}", t + 1)).spawn_scoped(sc, move || {
                let mut mine = Vec::with_capacity(per_max);
                while !go.load(Ordering::Acquire) {
                    std::hint::spin_loop();
                }
                let mut extra = 0usize;
                for k in 0..per_max {
                    if stopped.load(Ordering::Relaxed) {
                        extra += 1;
                        if extra > after_stop {
                            break;
                        }
                    }
                    let sl = slots.clone();
                    let inv = tick();
                    let thunk = kind == 1 || (kind == 2 && k % 2 == 1);
                    if thunk {
                        Dispatcher::dispatch_thunk(&store, Box::new(move |_d| {
                            let b = tick();
                            let s = &sl[t][k];
                            s.began.store(b, Ordering::Relaxed);
                            s.runs.fetch_add(1, Ordering::Relaxed);
                        }));
                    } else {
                        Dispatcher::dispatch_task(&store, Box::new(move || {
                            let b = tick();
                            let s = &sl[t][k];
                            s.began.store(b, Ordering::Relaxed);
                            s.runs.fetch_add(1, Ordering::Relaxed);
                        }));
                    }
                    let ret = tick();
                    mine.push((inv, ret));
                }
                mine
            }).unwrap());
        }
        go.store(true, Ordering::Release);
        let t0 = Instant::now();
        while (t0.elapsed().as_micros() as u64) < stop_delay_us {
            std::hint::spin_loop();
        }
        stop_inv = tick();
        let t1 = Instant::now();
        if via_stop == 1 {
            store.close();
        }
        store.stop();
        stop_ms = t1.elapsed().as_millis() as u64;
        stop_ret = tick();
        stopped.store(true, Ordering::Release);
        for h in hs {
            calls.push(h.join().unwrap());
        }
    });
    // a task submitted through a stale pool handle needs a moment to get a worker
    if !tiny {
        std::thread::sleep(Duration::from_millis(25));
    }
    let settle = tick();

    let mut v = Verdicts::default();
    v.evaluated.insert("C11");
    let (mut submitted, mut ran, mut before_stop, mut during_stop, mut after, mut ran_during) = (0u64, 0u64, 0u64, 0u64, 0u64, 0u64);
    if stop_ms >= 2500 {
        v.inconcl("C11", format!("stop() took {} ms", stop_ms));
    }
    let mut reported = 0;
    for (t, cs) in calls.iter().enumerate() {
        for (k, (inv, ret)) in cs.iter().enumerate() {
            submitted += 1;
            let s = &slots[t][k];
            let runs = s.runs.load(Ordering::Relaxed);
            let began = s.began.load(Ordering::Relaxed);
            if runs > 0 {
                ran += 1;
            }
            let what = if kind == 1 || (kind == 2 && k % 2 == 1) { "thunk" } else { "task" };
            if runs > 1 && reported < 4 {
                reported += 1;
                v.fail("C11", format!("{} {} of client thread {} ran {} times", what, k + 1, t + 1, runs));
            }
            if *ret < stop_inv {
                before_stop += 1;
                if runs == 0 && reported < 4 {
                    reported += 1;
                    v.fail("C11", format!("{} {} of client thread {} was handed to the running store (call returned at seq {}, stop() invoked at seq {}) and had not run at seq {} after stop() returned at seq {}", what, k + 1, t + 1, ret, stop_inv, settle, stop_ret));
                }
            } else if *inv > stop_ret {
                after += 1;
            } else {
                during_stop += 1;
                if runs > 0 {
                    ran_during += 1;
                }
            }
            if runs > 0 && began > stop_ret && stop_ms < 2500 && reported < 4 {
                reported += 1;
                v.fail("C11", format!("{} {} of client thread {} (submitting call seq {}..{}) began at seq {} after stop() (invoked at seq {}) had returned at seq {} in {} ms", what, k + 1, t + 1, inv, ret, began, stop_inv, stop_ret, stop_ms));
            }
        }
    }
    if stop_ms >= 2500 {
        // stop() may have returned through its timeout: nothing is judged
        v.findings.clear();
    }
    v.count("c11.hammer_tasks_submitted", submitted);
    v.count("c11.hammer_tasks_ran", ran);
    v.count("c11.hammer_submitted_before_stop", before_stop);
    v.count("c11.hammer_submit_calls_overlapping_stop", during_stop);
    v.count("c11.hammer_overlapping_calls_whose_task_ran", ran_during);
    v.count("c11.hammer_submitted_after_stop", after);
    if before_stop > 0 && after > 0 && during_stop > 0 {
        v.nontrivial.insert("C11");
    }
    let desc = J::obj(vec![
        ("family", J::s("T")),
        ("submitter_threads", J::U(n_sub as u64)),
        ("kind", J::s(["dispatch_task", "dispatch_thunk", "alternating"][kind as usize])),
        ("stop", J::s(["stop()", "close(); stop()"][via_stop as usize])),
        ("stop_delay_us", J::U(stop_delay_us)),
        ("stop_ms", J::U(stop_ms)),
        ("submitted", J::U(submitted)),
        ("ran", J::U(ran)),
        ("calls_overlapping_stop", J::U(during_stop)),
    ]);
    // identity of the execution: how the submitting calls fell around the stop
    let fp = mix(mix(n_sub as u64 * 8 + kind as u64 * 2 + via_stop as u64, before_stop), mix(during_stop, ran_during));
    Outcome { desc, h: None, v, fp_override: Some(fp) }
}
