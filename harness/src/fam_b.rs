//! Family B: stop race. Feeds C04 and C15 (and C01/C18 on the same histories).

use crate::core::*;
use crate::fam_a::{count_kind, wait_until};
use crate::hist::*;
use crate::json::J;
use crate::oracle_a::*;
use crate::script::*;
use crate::world::*;
use crate::Outcome;
use rs_store::DroppableStore;
use std::collections::HashSet;
use std::sync::atomic::{AtomicBool, AtomicU64, Ordering};

#[derive(Clone, Debug)]
pub struct BCfg {
    pub policy: u8,
    pub cap: usize,
    pub n_red: u32,
    pub n_mw: u32,
    pub n_sub: u32,
    pub chan: Option<(usize, u8)>,
    pub n_prod: usize,
    pub max_actions: usize,
    pub eps: Vec<u32>,
    pub gated: bool,
    /// stopper fires after this many dispatches have returned
    pub fire_after: u64,
    pub how: u32, // STOP_STOP / STOP_TRAIT / STOP_DROP ; close_first adds a close() before
    pub close_first: bool,
    pub perturb: u8,
    pub scripts: Vec<Script>,
    /// keep the reducer parked this long with callers blocked on the full queue before stopping
    pub long_stall_ms: u64,
    /// an iterator consumer runs alongside (C14 on stop-race histories)
    pub iter: bool,
    /// the DroppableStore is dropped by a panicking owner thread (drop during unwinding)
    pub panic_drop: bool,
    /// the poisoned-list scenario of family D with this family's stop operation (see fam_d::execute_poison)
    pub poison: Option<bool>,
    /// the parked reducer is released only this long (ms) after the stop operation was invoked, with the
    /// queue full: close() itself has to wait that long for room; afterwards the backlog needs milliseconds
    pub late_open_ms: u64,
}

pub fn gen(rng: &mut Rng, tiny: bool, focus: &str) -> BCfg {
    let policy = if rng.chance(3, 4) { POL_BLOCK } else { rng.range(1, 2) as u8 };
    let cap = *rng.pick(&[1usize, 2, 3, 5, 16]);
    let n_prod = if tiny { rng.range(1, 2) } else { rng.range(1, 6) } as usize;
    let max_actions = if tiny { rng.range(2, 4) } else { rng.range(3, 60) } as usize;
    let n_mw = rng.below(2) as u32;
    let mut scripts = vec![Script::plain()];
    for _ in 0..5 {
        let mut sc = Script::plain();
        match rng.below(6) {
            0 => sc.keep = 0xff,
            1 if n_mw > 0 => sc.mw[0][0] = V_DONE,
            2 => sc.eff[0] = Some(EffSpec { kind: EK_TASK, follow_script: 0, n_follow: 0, panic: false, gate: NOGATE }),
            _ => {}
        }
        scripts.push(sc);
    }
    let gated = rng.chance(1, 2);
    if gated {
        // script 6: the plug, parks the reducer at gate 0
        let mut sc = Script::plain();
        sc.rgate = 0;
        scripts.push(sc);
    }
    let how = if focus == "C15" {
        STOP_DROP
    } else {
        match rng.below(6) {
            0 => STOP_TRAIT,
            1 if focus != "C04" => STOP_DROP,
            _ => STOP_STOP,
        }
    };
    let total = n_prod * max_actions;
    BCfg {
        policy,
        cap,
        n_red: rng.range(1, 3) as u32,
        n_mw,
        n_sub: rng.range(1, 2) as u32,
        chan: if rng.chance(1, 2) { Some((rng.range(1, 4) as usize, POL_BLOCK)) } else { None },
        n_prod,
        max_actions,
        eps: (0..4).map(|_| rng.below(3) as u32).collect(),
        gated,
        fire_after: rng.below((total as u64).max(1)),
        how,
        close_first: rng.chance(1, 4),
        perturb: rng.below(3) as u8,
        scripts,
        long_stall_ms: if !gated { 0 } else if cfg!(miri) { 40_000 } else if !tiny && rng.chance(1, 800) { *rng.pick(&[1100u64, 2300, 3600]) } else { 0 },
        iter: focus == "C14" || rng.chance(1, 5),
        panic_drop: how == STOP_DROP && rng.chance(1, 3),
        poison: if rng.chance(1, 25) { Some(rng.chance(2, 3)) } else { None },
        late_open_ms: if gated && policy == POL_BLOCK && !tiny && !cfg!(miri) && total >= cap + 1 && (rng.chance(1, if focus == "C13" || focus == "C15" { 100 } else { 300 }) || std::env::var("RSV_FORCE").as_deref() == Ok("late_open")) { 3400 } else { 0 },
    }
}

pub fn describe(c: &BCfg) -> J {
    J::obj(vec![
        ("family", J::s("B")),
        ("policy", J::s(POL_NAMES[c.policy as usize])),
        ("capacity", J::U(c.cap as u64)),
        ("reducers", J::U(c.n_red as u64)),
        ("middlewares", J::U(c.n_mw as u64)),
        ("direct_subscribers", J::U(c.n_sub as u64)),
        ("channeled", c.chan.map(|(cap, p)| J::s(format!("cap {} {}", cap, POL_NAMES[p as usize]))).unwrap_or(J::Null)),
        ("producers", J::U(c.n_prod as u64)),
        ("max_actions_per_producer", J::U(c.max_actions as u64)),
        ("entry_points", J::A(c.eps.iter().map(|e| J::s(EP_NAMES[*e as usize])).collect())),
        ("reducer_gated_until_stop_invoked", J::B(c.gated)),
        ("stop_fires_after_n_dispatch_returns", J::U(c.fire_after)),
        ("stop_operation", J::s(["stop()", "close()", "drop(DroppableStore)", "Store::stop()"][c.how as usize])),
        ("close_first", J::B(c.close_first)),
        ("perturb", J::U(c.perturb as u64)),
        ("long_stall_ms", J::U(c.long_stall_ms)),
        ("iterator_consumer", J::B(c.iter)),
        ("dropped_by_panicking_owner", J::B(c.panic_drop)),
        ("reducer_released_ms_after_stop_invoked_with_full_queue", J::U(c.late_open_ms)),
        ("on_unsubscribe_panics_inside_unsubscribe_then_stop", c.poison.map(|ch| J::s(if ch { "with a parked channeled subscriber holding a backlog" } else { "direct subscribers only" })).unwrap_or(J::Null)),
    ])
}

pub fn execute(c: &BCfg, seed: u64) -> W {
    if let Some(ch) = c.poison {
        return crate::fam_d::execute_poison(seed, c.how, c.n_red, c.perturb, ch);
    }
    let ctx = Ctx::new(ScriptSrc::Table(c.scripts.clone()), 2, seed, c.perturb, false);
    let w = W::new(ctx, vec![StoreCfg { policy: c.policy, cap: c.cap, n_red: c.n_red, n_mw: c.n_mw, name: "rsvb".into(), ctor: 0 }]);
    let mut keep = Vec::new();
    let released = std::sync::Arc::new(Counter::new());
    for i in 0..c.n_sub {
        if i == 0 {
            let r2 = released.clone();
            keep.push(w.add_direct_sub(0, true, |sub| sub.unsub_counter = Some(r2)));
        } else {
            keep.push(w.add_direct(0, NOGATE, false, true, false));
        }
    }
    if let Some((cap, pol)) = c.chan {
        keep.push(w.add_channeled(0, cap, pol, NOGATE, false, true, false));
    }
    let mut iter_reg = if c.iter { Some(w.add_iter(0, true)) } else { None };
    let droppable = if c.how == STOP_DROP { Some(DroppableStore::new(w.stores[0].clone())) } else { None };
    let returned = AtomicU64::new(0);
    let halt = AtomicBool::new(false);
    let t_start = std::time::Instant::now();
    let n_scripts = if c.gated { c.scripts.len() - 1 } else { c.scripts.len() } as u64;
    std::thread::scope(|sc| {
        let mut hs = Vec::new();
        for p in 0..c.n_prod {
            let w = &w;
            let returned = &returned;
            let halt = &halt;
            hs.push(std::thread::Builder::new().name(format!("prod{}", p + 1)).spawn_scoped(sc, move || {
                let mut rng = Rng::new(mix(seed, p as u64 + 100));
                for k in 0..c.max_actions {
                    let script = if c.gated && p == 0 && k == 0 { c.scripts.len() as u32 - 1 } else { rng.below(n_scripts) as u32 };
                    let ep = c.eps[rng.below(c.eps.len() as u64) as usize];
                    w.ctx.perturb();
                    let ok = w.dispatch(0, ep, Act { id: act_id(0, p as u32 + 1, k as u32 + 1), script });
                    returned.fetch_add(1, Ordering::Relaxed);
                    // Err from the inherent/trait entry points means "closed": stop. From the
                    // Dispatcher interface under DropLatest it may mean "discarded": go on.
                    if !ok && (ep != EP_DISPATCHER || c.policy != POL_LATEST || halt.load(Ordering::Relaxed)) {
                        // the store has closed: a few more (rejected) dispatches, concurrently with the
                        // other producers' - every one must be rejected and counted
                        for j in 0..(rng.below(6) as u32) {
                            let ep2 = if rng.chance(1, 2) { EP_INHERENT } else { EP_STORE_TRAIT };
                            w.dispatch(0, ep2, Act { id: act_id(0, p as u32 + 1, 8000 + j), script: 0 });
                        }
                        break;
                    }
                }
            }).unwrap());
        }
        let consumer = iter_reg.take().map(|(id, mut it)| {
            let w = &w;
            std::thread::Builder::new().name("consumer".into()).spawn_scoped(sc, move || {
                loop {
                    w.ctx.ev(K::ItInv, 0, 0, id, 0, 0, 0);
                    match it.next() {
                        Some((st, act)) => {
                            w.ctx.evz(K::ItNext, 0, act.id, id, st.digest(), st.steps, st.valid() as u8, act.script);
                        }
                        None => {
                            w.ctx.ev(K::ItNext, 0, 0, id, 0, 0, 0);
                            break;
                        }
                    }
                }
                for _ in 0..2 {
                    w.ctx.ev(K::ItInv, 0, 0, id, 0, 0, 0);
                    let x = it.next();
                    w.ctx.ev(K::ItNext, 0, x.as_ref().map(|p| p.1.id).unwrap_or(0), id, 0, 0, x.is_some() as u8 + 2);
                }
                w.ctx.ev(K::ItDropInv, 0, 0, id, 0, 0, 0);
                drop(it);
                w.ctx.ev(K::ItDropRet, 0, 0, id, 0, 0, 0);
            }).unwrap()
        });
        // gate opener: releases the parked reducer only after stop() has been invoked, so that the
        // backlog at stop.inv is what the producers managed to queue
        if c.gated {
            let w = &w;
            std::thread::Builder::new().name("opener".into()).spawn_scoped(sc, move || {
                wait_until(|| count_kind(w, K::StopInv, c.how) + count_kind(w, K::StopInv, STOP_CLOSE) >= 1);
                w.ctx.perturb();
                w.ctx.perturb();
                if c.late_open_ms > 0 {
                    std::thread::sleep(std::time::Duration::from_millis(c.late_open_ms));
                }
                w.ctx.gates[0].open();
                w.mark(MARK_GATE_OPENED_MS, t_start.elapsed().as_millis() as u64);
            }).unwrap();
        }
        // stopper
        {
            let fire = c.fire_after.min((c.n_prod * c.max_actions) as u64);
            // with a parked reducer only `cap`+1 dispatches can ever return before the gate opens
            let fire = if c.gated { fire.min(c.cap as u64) } else { fire };
            wait_until(|| returned.load(Ordering::Relaxed) >= fire);
            if c.long_stall_ms > 0 || c.late_open_ms > 0 {
                // queue full, further callers blocked in send, reducer parked: nothing may time out
                wait_until(|| returned.load(Ordering::Relaxed) >= ((c.n_prod * c.max_actions) as u64).min(c.cap as u64 + 1));
                std::thread::sleep(std::time::Duration::from_millis(c.long_stall_ms));
            }
            w.ctx.perturb();
            w.mark(MARK_SHUTDOWN_MS, t_start.elapsed().as_millis() as u64);
            if c.close_first {
                w.stop(0, STOP_CLOSE);
                w.ctx.perturb();
                // after close() alone, dispatch must already be rejected
                w.dispatch(0, EP_INHERENT, Act { id: act_id(0, 40, 1), script: 0 });
            }
            match droppable {
                Some(d) if c.panic_drop => {
                    // the owner thread panics: the store is dropped while unwinding; its effects are
                    // complete when the owner thread has been joined
                    let cx = w.ctx.clone();
                    let t0 = std::time::Instant::now();
                    let owner = std::thread::Builder::new().name("owner".into()).spawn(move || {
                        let _d = d;
                        cx.ev(K::StopInv, 0, 0, STOP_DROP, 0, 0, 0);
                        std::panic::panic_any(PANIC_MARK);
                    }).unwrap();
                    let _ = owner.join();
                    w.ctx.ev(K::StopRet, 0, 0, STOP_DROP, 0, t0.elapsed().as_millis() as u64, 0);
                }
                Some(d) => {
                    w.drop_droppable(0, d);
                }
                None => {
                    w.stop(0, c.how);
                }
            }
            halt.store(true, Ordering::Relaxed);
            // a stop() that needed >= 2.5 s is "slow" if the reducer loop does finish (its last act is
            // releasing the subscribers) and "completed only by its timeout" if it never does
            let slow = w.ctx.log.bufs.lock().unwrap().iter().any(|(_, b)| b.lock().unwrap().iter().any(|e| e.k == K::StopRet && e.idx != STOP_CLOSE && e.y >= 2500));
            if slow && !released.wait_at_least(1, 120) {
                w.mark(900, 9);
                w.ctx.gates[1].wait();
            }
        }
        // post-stop probes through every entry point, from the stopper thread and (after join) again
        for (k, ep) in [EP_INHERENT, EP_STORE_TRAIT, EP_DISPATCHER, EP_THUNK].iter().enumerate() {
            w.dispatch(0, *ep, Act { id: act_id(0, 41, k as u32 + 1), script: 0 });
        }
        w.read(0);
        w.stop(0, STOP_STOP);
        w.stop(0, STOP_TRAIT);
        for h in hs {
            h.join().unwrap();
        }
        if let Some(h) = consumer {
            h.join().unwrap();
        }
    });
    // grace period: lets anything that wrongly survived stop() show itself (detection power only)
    if cfg!(miri) {
        for _ in 0..20 {
            std::thread::yield_now();
        }
    } else {
        std::thread::sleep(std::time::Duration::from_micros(300));
    }
    for (k, ep) in [EP_INHERENT, EP_STORE_TRAIT, EP_DISPATCHER].iter().enumerate() {
        w.dispatch(0, *ep, Act { id: act_id(0, 42, k as u32 + 1), script: 0 });
    }
    w.read(0);
    w.metrics(0);
    drop(keep);
    w
}

const MARK_GATE_OPENED_MS: u32 = 10;
const MARK_SHUTDOWN_MS: u32 = 11;

/// The stop operation took >= 2.5 s and returned while the reducer loop was still running (its last act,
/// releasing subscriber 0, came later or never), although nothing was parked or slow: the gate (if any) had
/// been opened within half a second of the shutdown call. The stop was completed by its timeout.
fn gave_up_without_cause(h: &Hist, c: &BCfg) -> Option<String> {
    if cfg!(miri) || c.poison.is_some() {
        return None; // (Miri's virtual clock is not a stopwatch)
    }
    let sr = first_stop(h, 0)?;
    if sr.ret == INF || sr.ms < 2500 {
        return None;
    }
    let mark = |code: u32| h.evs.iter().find(|e| e.k == K::Mark && e.idx == code).map(|e| e.x);
    if c.gated {
        match (mark(MARK_GATE_OPENED_MS), mark(MARK_SHUTDOWN_MS)) {
            (Some(o), Some(sd)) if o.saturating_sub(sd) < 500 => {}
            _ => return None,
        }
    }
    let settled = settled_stop_ret(h, 0);
    let released = h.evs.iter().find(|e| e.k == K::SUnsub && e.idx == 0).map(|e| e.seq);
    if released.map(|r| r > settled).unwrap_or(true) {
        let what = if sr.how == STOP_DROP { "drop(DroppableStore)" } else { "stop()" };
        return Some(format!(
            "store 0: {} returned after {} ms (its timeout) while the reducer loop was still working ({}), although no callback was parked or slow when it was called",
            what,
            sr.ms,
            match released {
                Some(r) => format!("subscribers were released at seq {}, the call had returned at seq {}", r, settled),
                None => "subscribers were never released".to_string(),
            }
        ));
    }
    None
}

pub fn c04(h: &Hist, s: u8, v: &mut Verdicts, prop: &'static str) {
    let sh = &h.st[s as usize];
    let cfg = &h.cfg[s as usize];
    let want_drop = prop == "C15";
    let sr = match first_stop(h, s) {
        Some(sr) => sr.clone(),
        None => return,
    };
    if (sr.how == STOP_DROP) != want_drop {
        return;
    }
    v.evaluated.insert(prop);
    if sr.ret == INF || sr.ms >= 2500 {
        v.inconcl(prop, format!("stop() took {} ms (>= 2.5 s or never returned)", sr.ms));
        return;
    }
    let opname = if want_drop { "drop(DroppableStore)" } else { "stop()" };
    // (i) nothing runs after stop() returned
    let chan_ids: HashSet<u32> = h.subs.iter().filter(|x| x.kind == SK_CHANNELED).map(|x| x.id).collect();
    for e in &h.evs {
        if e.seq <= sr.ret || e.store != s {
            continue;
        }
        let bad = match e.k {
            K::RBeg | K::REnd | K::MBeg | K::MEnd | K::MErr | K::SBeg | K::SEnd | K::SelCb | K::SUnsub => true,
            _ => false,
        };
        // on_unsubscribe of a subscriber object shared between stores cannot be attributed to a store
        let shared = e.k == K::SUnsub && h.subs.get(e.idx as usize).map(|x| x.shared).unwrap_or(false);
        if bad && !shared {
            let who = if chan_ids.contains(&e.idx) && matches!(e.k, K::SBeg | K::SEnd) { " (channeled subscriber)" } else { "" };
            v.fail(prop, format!("store {}: {}{} for {} ran at seq {} after {} had returned at seq {}", s, e.k.name(), who, id_str(e.a), e.seq, opname, sr.ret));
            break;
        }
    }
    // (ii) accepted under BlockOnFull => completely processed; (iii) Err => never reduced
    let mut ok_n = 0u64;
    let mut err_n = 0u64;
    let mut overlap = 0u64;
    let first_shutdown_inv = sh.stops.iter().map(|r| r.inv).min().unwrap_or(sr.inv);
    let close_ret = sh.stops.iter().filter(|r| r.how == STOP_CLOSE && r.ret != INF).map(|r| r.ret).min();
    for (a, d) in &h.disp {
        if id_store(*a) != s {
            continue;
        }
        if d.inv < sr.ret && d.ret > first_shutdown_inv {
            overlap += 1;
        }
        match d.ok {
            Some(true) => {
                ok_n += 1;
                if d.inv > sr.ret {
                    v.fail(prop, format!("store {}: dispatch of {} through {} was invoked after {} had returned and still returned Ok", s, id_str(*a), EP_NAMES[d.ep as usize], opname));
                } else if let Some(cr) = close_ret {
                    if d.inv > cr {
                        v.fail(prop, format!("store {}: dispatch of {} was invoked after close() had returned and still returned Ok", s, id_str(*a)));
                    }
                }
                if cfg.policy == POL_BLOCK && cfg.n_red > 0 {
                    match sh.acts.get(a) {
                        None => v.fail(prop, format!("store {}: dispatch of {} returned Ok ({}) but the action was not processed by the time {} returned", s, id_str(*a), EP_NAMES[d.ep as usize], opname)),
                        Some(ar) => {
                            if !ar.vetoed() && (ar.reduces.is_empty() || ar.reduces.iter().any(|r| r.end == INF)) {
                                v.fail(prop, format!("store {}: accepted action {} was not completely reduced when {} returned", s, id_str(*a), opname));
                            }
                        }
                    }
                }
            }
            Some(false) => {
                err_n += 1;
                if sh.acts.contains_key(a) {
                    v.fail(prop, format!("store {}: dispatch of {} returned Err through {} but the action was processed anyway", s, id_str(*a), EP_NAMES[d.ep as usize]));
                }
            }
            None => {
                // never returned although stop() did
                v.fail(prop, format!("store {}: dispatch of {} had not returned by the end of the scenario although {} had returned long before", s, id_str(*a), opname));
            }
        }
    }
    // whole-run subscribers: complete streams before stop.ret and released exactly once
    let unsubscribed: HashSet<u32> = h.evs.iter().filter(|e| e.k == K::UInv).map(|e| e.idx).collect();
    for si in h.subs.iter().filter(|si| si.store == s && si.at_build && !unsubscribed.contains(&si.id) && (si.kind == SK_DIRECT || si.kind == SK_CHANNELED)) {
        let got: HashSet<u32> = h.evs.iter().filter(|e| e.k == K::SEnd && e.idx == si.id && e.seq < sr.ret).map(|e| e.a).collect();
        if si.kind == SK_DIRECT || si.policy == POL_BLOCK {
            for a in &sh.taken {
                let ar = &sh.acts[a];
                if ar.notifying() == Some(true) && !ar.vetoed() && !ar.bd_done() && !got.contains(a) {
                    let kind = if si.kind == SK_CHANNELED { "channeled subscriber (BlockOnFull)" } else { "subscriber" };
                    v.fail(prop, format!("store {}: {} {} had not been told about {} when {} returned (not flushed)", s, kind, si.id, id_str(*a), opname));
                }
            }
        }
        if si.kind == SK_DIRECT {
            let n = h.evs.iter().filter(|e| e.k == K::SUnsub && e.idx == si.id && e.seq < sr.ret).count();
            if n != 1 {
                v.fail(prop, format!("store {}: subscriber {} was released {} times by the time {} returned (reducer loop not finished / subscribers not released)", s, si.id, n, opname));
            }
        }
    }
    // state is final: every client read invoked after stop.ret sees the state after the last action
    let f = fold(h, s, v, false);
    for e in h.of(K::GRet, s) {
        if e.idx == 0 && read_inv(h, e) > sr.ret && e.x != f.final_digest {
            v.fail(prop, format!("store {}: get_state() after {} does not return the state after the last reduced action", s, opname));
        }
    }
    // backlog at the moment shutdown was invoked
    let accepted_before = h.disp.values().filter(|d| d.ok == Some(true) && d.ret < first_shutdown_inv).count() as u64;
    let taken_before = sh.taken.iter().filter(|a| sh.acts[*a].first < first_shutdown_inv).count() as u64;
    let backlog = accepted_before.saturating_sub(taken_before);
    v.count(&format!("{}.dispatch_overlapping_shutdown", prop.to_lowercase()), overlap);
    v.count(&format!("{}.ok_results", prop.to_lowercase()), ok_n);
    v.count(&format!("{}.err_results", prop.to_lowercase()), err_n);
    v.maxc(&format!("{}.max_backlog_at_stop", prop.to_lowercase()), backlog);
    let clone_used_after = h.disp.values().any(|d| d.inv > sr.ret);
    if overlap >= 1 && backlog >= 1 && ok_n > 0 && err_n > 0 && (!want_drop || clone_used_after) {
        v.nontrivial.insert(prop);
    }
}

pub fn run(seed: u64, tiny: bool, focus: &str) -> Outcome {
    let mut rng = Rng::new(seed);
    let mut c = gen(&mut rng, tiny, focus);
    if c.late_open_ms > 0 {
        // the wait for room must happen inside the stop operation itself
        c.close_first = false;
        c.panic_drop = false;
    }
    let w = execute(&c, seed);
    let h = Hist::from_world(&w);
    let mut v = Verdicts::default();
    c04(&h, 0, &mut v, "C04");
    c04(&h, 0, &mut v, "C15");
    crate::fam_d::c14(&h, 0, &mut v);
    crate::fam_c::c05(&h, 0, &mut v);
    // every call of the scenario returned (it completed) and no stop() was left to its timeout with
    // the loop still running (the controller would have parked): C13 on stop-race programs
    v.evaluated.insert("C13");
    // late release: close() had to wait late_open_ms for room in the full queue; what was left then needs
    // milliseconds, so the stop returns after the loop has ended unless its own join timeout (a further
    // 3 s) ran out as well
    let mut late_msg = None;
    if c.late_open_ms > 0 && c.poison.is_none() {
        if let Some(sr) = first_stop(&h, 0) {
            let settled = settled_stop_ret(&h, 0);
            let released = h.evs.iter().find(|e| e.k == K::SUnsub && e.idx == 0).map(|e| e.seq);
            if sr.ret != INF && sr.ms >= c.late_open_ms && sr.ms < c.late_open_ms + 2500 && released.map(|r| r > settled).unwrap_or(true) {
                late_msg = Some(format!(
                    "store 0: the reducer was parked until {} ms after the stop operation was invoked (queue full, so close() waited for room); the call returned after {} ms with the backlog still unprocessed ({}), although the remaining work needed no waiting and the join had not used up its own time",
                    c.late_open_ms,
                    sr.ms,
                    match released {
                        Some(r) => format!("subscribers released at seq {}, call returned at seq {}", r, settled),
                        None => "subscribers never released".to_string(),
                    }
                ));
            }
        }
    }
    if let Some(msg) = late_msg {
        if first_stop(&h, 0).map(|sr| sr.how == STOP_DROP).unwrap_or(false) {
            v.fail("C15", msg.clone());
        }
        v.fail("C13", msg);
    } else if let Some(msg) = gave_up_without_cause(&h, &c) {
        if first_stop(&h, 0).map(|sr| sr.how == STOP_DROP).unwrap_or(false) {
            v.fail("C15", msg.clone());
        }
        v.fail("C13", msg);
    } else if stop_timed_out(&h, 0) {
        v.inconcl("C13", "a stop() took >= 2.5 s but the reducer loop finished (slow, not wedged)".into());
    } else if c.n_prod >= 2 {
        v.nontrivial.insert("C13");
    }
    c01(&h, 0, &mut v);
    c02(&h, 0, &mut v);
    crate::oracle_m::c18(&h, &w, 0, &mut v);
    Outcome::new(describe(&c), h, v)
}
