//! Scripted state/action types and scripted reducers, middlewares, subscribers and effects.
//! Behaviour is a pure function of (action, script table); every callback logs begin/end events.

use crate::core::*;
use rs_store::*;
use std::sync::{Arc, Mutex, Weak};

pub type RStore = StoreImpl<St, Act>;

// ---------------------------------------------------------------------------------------------
// State and action

#[derive(Clone, Debug, PartialEq)]
pub struct St {
    pub steps: u64,
    pub chain: u64,
    pub check: u64,
    pub last: u32,
    pub sel: u8,
}

#[derive(Clone, Debug, PartialEq)]
pub struct Act {
    pub id: u32,
    pub script: u32,
}

/// id layout: bits 0..13 seq | 14..19 producer | 20..23 follow-up generation (reducer idx + 1)
/// | 28..31 store
pub fn act_id(store: u8, producer: u32, seq: u32) -> u32 {
    assert!(seq < (1 << 14) && producer < 64 && store < 16);
    ((store as u32) << 28) | (producer << 14) | seq
}
pub fn id_store(id: u32) -> u8 {
    (id >> 28) as u8
}
pub fn id_producer(id: u32) -> u32 {
    (id >> 14) & 63
}
pub fn id_seq(id: u32) -> u32 {
    id & 0x3fff
}
pub fn id_gen(id: u32) -> u32 {
    (id >> 20) & 15
}
pub fn follow_id(parent: u32, ridx: u32, k: u32) -> u32 {
    // follow-ups of one parent: generation = ridx+1, distinguished further by k in bits 24..27
    (parent & !(0xff << 20)) | ((ridx + 1) << 20) | (k << 24)
}
pub fn id_str(id: u32) -> String {
    if id == 0 {
        return "-".into();
    }
    let g = id_gen(id);
    if g == 0 {
        format!("s{}p{}#{}", id_store(id), id_producer(id), id_seq(id))
    } else {
        format!("s{}p{}#{}+f{}.{}", id_store(id), id_producer(id), id_seq(id), g - 1, (id >> 24) & 15)
    }
}

impl St {
    pub fn initial(store: u8) -> St {
        let chain = mix(0xC0FFEE, store as u64);
        St { steps: 0, chain, check: mix(chain, 0), last: 0, sel: 0 }
    }
    pub fn valid(&self) -> bool {
        self.check == mix(self.chain, self.steps)
    }
    pub fn digest(&self) -> u64 {
        mix(mix(self.chain, self.steps), mix(self.check, ((self.last as u64) << 8) | self.sel as u64))
    }
    pub fn apply(&self, ridx: u32, act: &Act, sc: &Script) -> St {
        let chain = mix(self.chain, ((ridx as u64) << 32) | act.id as u64);
        let steps = self.steps + 1;
        St {
            steps,
            chain,
            check: mix(chain, steps),
            last: act.id,
            sel: if sc.sel == 255 { self.sel } else { sc.sel },
        }
    }
}

// ---------------------------------------------------------------------------------------------
// Scripts

pub const V_CONT: u8 = 0;
pub const V_DONE: u8 = 1;
pub const V_BREAK: u8 = 2;
pub const V_ERR: u8 = 3;

pub const EK_ACTION: u8 = 0;
pub const EK_TASK: u8 = 1;
pub const EK_THUNK: u8 = 2;
pub const EK_FUNC: u8 = 3;

pub const NOGATE: u8 = 255;

#[derive(Clone, Copy, Debug, PartialEq)]
pub struct EffSpec {
    pub kind: u8,
    /// script index of the follow-up action(s) (kind Action: exactly one; Thunk: n_follow)
    pub follow_script: u32,
    pub n_follow: u8,
    pub panic: bool,
    pub gate: u8,
}

#[derive(Clone, Debug, PartialEq)]
pub struct Script {
    /// bit i set: reducer i answers Keep
    pub keep: u8,
    pub sel: u8,
    pub eff: [Option<EffSpec>; 4],
    /// verdict of middleware m in hook h (0 before_reduce, 1 before_effect, 2 before_dispatch)
    pub mw: [[u8; 3]; 3],
    /// before_effect of middleware m removes these positions of the list it receives
    pub mw_remove: [u8; 3],
    /// reducer `rgate_idx` parks at this gate
    pub rgate: u8,
    pub rgate_idx: u32,
    /// middleware with this index parks at gate `rgate` (255: none) in hook `mgate_hook`
    /// (0 before_reduce, 1 before_effect)
    pub mgate_idx: u8,
    pub mgate_hook: u8,
    /// before_effect of middleware m inserts one Task effect at the front of the list
    pub mw_insert: [bool; 3],
    /// gated subscribers park for this action
    pub sgate: bool,
    /// middleware 0 dispatches this many follow-ups synchronously from before_reduce
    pub mw_dispatch: u8,
    pub mw_dispatch_script: u32,
}

impl Script {
    pub fn plain() -> Script {
        Script {
            keep: 0,
            sel: 255,
            eff: [None; 4],
            mw: [[V_CONT; 3]; 3],
            mw_remove: [0; 3],
            rgate: NOGATE,
            rgate_idx: 0,
            mgate_idx: 255,
            mgate_hook: 0,
            mw_insert: [false; 3],
            sgate: false,
            mw_dispatch: 0,
            mw_dispatch_script: 0,
        }
    }
}

pub enum ScriptSrc {
    Table(Vec<Script>),
    /// script number n = base-4 digits: verdict of (mw m, hook h) at digit m*3+h; bit 31: Keep;
    /// bits 24..29: effect/removal variant
    Verdicts,
}

pub fn decode_verdict_script(n: u32) -> Script {
    let mut s = Script::plain();
    let mut d = n & 0x3ffff;
    for m in 0..3 {
        for h in 0..3 {
            s.mw[m][h] = (d & 3) as u8;
            d >>= 2;
        }
    }
    if n & (1 << 31) != 0 {
        s.keep = 0xff;
    }
    if n & (1 << 30) != 0 {
        // parking action: middleware 0 waits at gate 0 inside before_reduce
        s.rgate = 0;
        s.mgate_idx = 0;
        s.mgate_hook = 0;
    }
    let var = (n >> 24) & 63;
    // effect variants: bit0: reducer 0 returns a Task; bit1: reducer 1 returns a Function;
    // bits 2..3: which middleware removes position 0 (0 = none); bits 4..5: removes position 1
    if var & 1 != 0 {
        s.eff[0] = Some(EffSpec { kind: EK_TASK, follow_script: 0, n_follow: 0, panic: false, gate: NOGATE });
    }
    if var & 2 != 0 {
        s.eff[1] = Some(EffSpec { kind: EK_FUNC, follow_script: 0, n_follow: 0, panic: false, gate: NOGATE });
    }
    let r0 = (var >> 2) & 3;
    if r0 != 0 {
        s.mw_remove[(r0 - 1) as usize] |= 1;
    }
    let r1 = (var >> 4) & 3;
    if r1 != 0 {
        s.mw_remove[(r1 - 1) as usize] |= 2;
    }
    s
}

// ---------------------------------------------------------------------------------------------
// Context shared by all scripted components of one scenario

pub struct Ctx {
    pub log: Arc<Log>,
    pub scripts: ScriptSrc,
    pub gates: Vec<Gate>,
    pub seed: u64,
    pub perturb: u8,
    pub stores: Mutex<Vec<Weak<RStore>>>,
    /// callbacks read the state (C08) when set
    pub read_in_cb: bool,
    /// progress counters a controller can wait on: (effect bodies started, reducer-0 calls ended)
    pub c_eff: Counter,
    pub c_red: Counter,
    pub count_progress: bool,
}

impl Ctx {
    pub fn new(scripts: ScriptSrc, n_gates: usize, seed: u64, perturb: u8, read_in_cb: bool) -> Arc<Ctx> {
        Ctx::new_opts(scripts, n_gates, seed, perturb, read_in_cb, false)
    }
    pub fn new_opts(scripts: ScriptSrc, n_gates: usize, seed: u64, perturb: u8, read_in_cb: bool, count_progress: bool) -> Arc<Ctx> {
        Arc::new(Ctx {
            log: Log::new(),
            scripts,
            gates: (0..n_gates).map(|_| Gate::new()).collect(),
            seed,
            perturb,
            stores: Mutex::new(Vec::new()),
            read_in_cb,
            c_eff: Counter::new(),
            c_red: Counter::new(),
            count_progress,
        })
    }
    pub fn script(&self, n: u32) -> Script {
        match &self.scripts {
            ScriptSrc::Table(t) => t[n as usize % t.len()].clone(),
            ScriptSrc::Verdicts => decode_verdict_script(n),
        }
    }
    pub fn perturb(&self) {
        perturb(self.seed, self.perturb);
    }
    pub fn ev(&self, k: K, store: u8, a: u32, idx: u32, x: u64, y: u64, r: u8) -> u64 {
        self.log.ev(k, store, a, idx, x, y, r)
    }
    #[allow(clippy::too_many_arguments)]
    pub fn evz(&self, k: K, store: u8, a: u32, idx: u32, x: u64, y: u64, r: u8, z: u32) -> u64 {
        self.log.evz(k, store, a, idx, x, y, r, z)
    }
    pub fn store(&self, s: u8) -> Option<Arc<RStore>> {
        self.stores.lock().unwrap().get(s as usize).and_then(|w| w.upgrade())
    }
    /// get_state() with inv/ret events; `wh`: 0 client, 1 subscriber cb, 2 middleware cb,
    /// 3 channeled/iterator consumer, 4 effect
    pub fn read(&self, s: u8, wh: u32) -> Option<St> {
        let st = self.store(s)?;
        Some(read_state(&self.log, &st, s, wh))
    }
    pub fn gate_wait(&self, g: u8, store: u8, a: u32) {
        self.ev(K::GateWait, store, a, g as u32, 0, 0, 0);
        let ok = self.gates[g as usize].wait();
        self.ev(K::GateGo, store, a, g as u32, 0, 0, if ok { 0 } else { 1 });
    }
}

pub fn read_state(log: &Log, st: &RStore, s: u8, wh: u32) -> St {
    log.ev(K::GInv, s, 0, wh, 0, 0, 0);
    let v = StoreImpl::get_state(st);
    log.ev(K::GRet, s, v.last, wh, v.digest(), v.steps, v.valid() as u8);
    v
}

// ---------------------------------------------------------------------------------------------
// Reducer

pub struct ScriptedReducer {
    pub ctx: Arc<Ctx>,
    pub store: u8,
    pub idx: u32,
}

pub const PANIC_MARK: &str = "rsv-scripted-panic";

fn effect_body(ctx: &Arc<Ctx>, store: u8, a: u32, ridx: u32, e: EffSpec) {
    ctx.ev(K::EBeg, store, a, (ridx << 4) | e.kind as u32, 0, 0, e.panic as u8);
    if ctx.count_progress {
        ctx.c_eff.add(1);
    }
    if e.gate != NOGATE {
        ctx.gate_wait(e.gate, store, a);
    }
    ctx.perturb();
    if e.panic {
        std::panic::panic_any(PANIC_MARK);
    }
    ctx.ev(K::EEnd, store, a, (ridx << 4) | e.kind as u32, 0, 0, 0);
}

pub fn make_effect(ctx: &Arc<Ctx>, store: u8, act: &Act, ridx: u32, e: EffSpec) -> Effect<Act> {
    let c = ctx.clone();
    let a = act.id;
    match e.kind {
        EK_ACTION => Effect::Action(Act { id: follow_id(a, ridx, 0), script: e.follow_script }),
        EK_TASK => Effect::Task(Box::new(move || effect_body(&c, store, a, ridx, e))),
        EK_FUNC => Effect::Function(
            format!("f{}", a),
            Box::new(move || {
                effect_body(&c, store, a, ridx, e);
                Ok(Box::new(a) as Box<dyn std::any::Any + Send>)
            }),
        ),
        _ => Effect::Thunk(Box::new(move |d: Box<dyn Dispatcher<Act>>| {
            c.ev(K::EBeg, store, a, (ridx << 4) | e.kind as u32, 0, 0, e.panic as u8);
            if c.count_progress {
                c.c_eff.add(1);
            }
            if e.gate != NOGATE {
                c.gate_wait(e.gate, store, a);
            }
            for k in 0..e.n_follow as u32 {
                let f = Act { id: follow_id(a, ridx, k), script: e.follow_script };
                c.perturb();
                c.evz(K::DInv, store, f.id, EP_THUNK_FOLLOW, 0, 0, 0, f.script);
                let r = d.dispatch(f.clone());
                c.ev(K::DRet, store, f.id, EP_THUNK_FOLLOW, 0, 0, r.is_err() as u8);
            }
            if e.panic {
                std::panic::panic_any(PANIC_MARK);
            }
            c.ev(K::EEnd, store, a, (ridx << 4) | e.kind as u32, 0, 0, 0);
        })),
    }
}

impl Reducer<St, Act> for ScriptedReducer {
    fn reduce(&self, st: &St, act: &Act) -> DispatchOp<St, Act> {
        let c = &self.ctx;
        let sc = c.script(act.script);
        c.evz(K::RBeg, self.store, act.id, self.idx, st.digest(), st.steps, st.valid() as u8, act.script);
        if self.idx == sc.rgate_idx && sc.rgate != NOGATE && sc.mgate_idx == 255 {
            c.gate_wait(sc.rgate, self.store, act.id);
        }
        c.perturb();
        let ns = st.apply(self.idx, act, &sc);
        let eff = if (self.idx as usize) < 4 {
            sc.eff[self.idx as usize].map(|e| make_effect(c, self.store, act, self.idx, e))
        } else {
            None
        };
        let keep = self.idx < 8 && sc.keep & (1 << self.idx) != 0;
        c.ev(K::REnd, self.store, act.id, self.idx, ns.digest(), ns.steps, keep as u8);
        if c.count_progress && self.idx == 0 {
            c.c_red.add(1);
        }
        if keep {
            DispatchOp::Keep(ns, eff)
        } else {
            DispatchOp::Dispatch(ns, eff)
        }
    }
}

// ---------------------------------------------------------------------------------------------
// Middleware

pub const EP_INHERENT: u32 = 0;
pub const EP_STORE_TRAIT: u32 = 1;
pub const EP_DISPATCHER: u32 = 2;
pub const EP_THUNK: u32 = 3; // client dispatch_thunk, dispatch through the dispatcher received
pub const EP_MW: u32 = 4; // dispatcher handed to a middleware hook
pub const EP_THUNK_FOLLOW: u32 = 5; // Effect::Thunk body, dispatcher received
pub const EP_NAMES: [&str; 6] = ["StoreImpl::dispatch", "Store::dispatch", "Dispatcher::dispatch", "thunk-dispatcher", "middleware-dispatcher", "effect-thunk-dispatcher"];

pub struct ScriptedMw {
    pub ctx: Arc<Ctx>,
    pub store: u8,
    pub idx: u32,
}

impl ScriptedMw {
    fn verdict(&self, act: &Act, hook: usize, sc: &Script) -> Result<MiddlewareOp, StoreError> {
        let v = if (self.idx as usize) < 3 { sc.mw[self.idx as usize][hook] } else { V_CONT };
        self.ctx.ev(K::MEnd, self.store, act.id, self.idx * 4 + hook as u32, 0, 0, v);
        match v {
            V_CONT => Ok(MiddlewareOp::ContinueAction),
            V_DONE => Ok(MiddlewareOp::DoneAction),
            V_BREAK => Ok(MiddlewareOp::BreakChain),
            _ => Err(StoreError::MiddlewareError(format!("{}:{}", act.id, hook))),
        }
    }
}

impl Middleware<St, Act> for ScriptedMw {
    fn before_reduce(&self, act: &Act, st: &St, d: Arc<dyn Dispatcher<Act>>) -> Result<MiddlewareOp, StoreError> {
        let c = &self.ctx;
        let sc = c.script(act.script);
        c.evz(K::MBeg, self.store, act.id, self.idx * 4, st.digest(), st.steps, st.valid() as u8, act.script);
        if sc.mgate_idx as u32 == self.idx && sc.rgate != NOGATE && sc.mgate_hook == 0 {
            c.gate_wait(sc.rgate, self.store, act.id);
        }
        c.perturb();
        if c.read_in_cb {
            c.read(self.store, 2);
        }
        if self.idx == 0 && sc.mw_dispatch > 0 {
            for k in 0..sc.mw_dispatch as u32 {
                let f = Act { id: follow_id(act.id, 14, k), script: sc.mw_dispatch_script };
                c.evz(K::DInv, self.store, f.id, EP_MW, 0, 0, 0, f.script);
                let r = d.dispatch(f.clone());
                c.ev(K::DRet, self.store, f.id, EP_MW, 0, 0, r.is_err() as u8);
            }
        }
        self.verdict(act, 0, &sc)
    }

    fn before_effect(&self, act: &Act, st: &St, effects: &mut Vec<Effect<Act>>, _d: Arc<dyn Dispatcher<Act>>) -> Result<MiddlewareOp, StoreError> {
        let c = &self.ctx;
        let sc = c.script(act.script);
        c.evz(K::MBeg, self.store, act.id, self.idx * 4 + 1, st.digest(), effects.len() as u64, st.valid() as u8, act.script);
        if sc.mgate_idx as u32 == self.idx && sc.rgate != NOGATE && sc.mgate_hook == 1 {
            c.gate_wait(sc.rgate, self.store, act.id);
        }
        c.perturb();
        if (self.idx as usize) < 3 {
            let mask = sc.mw_remove[self.idx as usize];
            let mut pos = 0u8;
            effects.retain(|_| {
                let keep = pos >= 8 || mask & (1 << pos) == 0;
                pos += 1;
                keep
            });
            if sc.mw_insert[self.idx as usize] {
                // an effect of the middleware's own, put in front of the reducers' effects
                let cx = c.clone();
                let (store, a, tag) = (self.store, act.id, 0xE0 + self.idx);
                effects.insert(0, Effect::Task(Box::new(move || {
                    cx.ev(K::EBeg, store, a, tag, 0, 0, 0);
                    if cx.count_progress {
                        cx.c_eff.add(1);
                    }
                    cx.ev(K::EEnd, store, a, tag, 0, 0, 0);
                })));
            }
        }
        self.verdict(act, 1, &sc)
    }

    fn before_dispatch(&self, act: &Act, st: &St, _d: Arc<dyn Dispatcher<Act>>) -> Result<MiddlewareOp, StoreError> {
        let c = &self.ctx;
        let sc = c.script(act.script);
        c.evz(K::MBeg, self.store, act.id, self.idx * 4 + 2, st.digest(), st.steps, st.valid() as u8, act.script);
        c.perturb();
        if c.read_in_cb {
            c.read(self.store, 2);
        }
        self.verdict(act, 2, &sc)
    }

    fn on_error(&self, error: StoreError) {
        let (mut a, mut hook) = (0u32, 7u32);
        if let StoreError::MiddlewareError(s) = &error {
            let mut it = s.split(':');
            a = it.next().and_then(|x| x.parse().ok()).unwrap_or(0);
            hook = it.next().and_then(|x| x.parse().ok()).unwrap_or(7);
        }
        self.ctx.ev(K::MErr, self.store, a, self.idx * 4 + hook, 0, 0, 0);
    }
}

// ---------------------------------------------------------------------------------------------
// Subscribers

pub struct ScriptedSub {
    pub ctx: Arc<Ctx>,
    /// 255: shared between stores, attribute by action id
    pub store: u8,
    pub id: u32,
    pub gate: u8,
    /// park at the gate for every action, not only for scripts with sgate
    pub gate_all: bool,
    /// where-code for get_state reads made inside on_notify (0 = do not read)
    pub read_wh: u32,
    /// bumped after every on_notify (lets a controller wait for notifications without polling)
    pub counter: Option<Arc<Counter>>,
    /// bumped by on_unsubscribe
    pub unsub_counter: Option<Arc<Counter>>,
    /// scenario-specific action performed inside on_notify (e.g. unsubscribe another subscriber,
    /// dispatch to another store)
    pub hook: Option<SubHook>,
    /// on_unsubscribe parks at this gate (NOGATE: does not)
    pub unsub_gate: u8,
    /// the first on_unsubscribe call panics (after recording the call)
    pub panic_on_unsub: std::sync::atomic::AtomicBool,
}

pub type SubHook = Arc<dyn Fn(&Arc<Ctx>, &St, &Act) + Send + Sync>;

impl Subscriber<St, Act> for ScriptedSub {
    fn on_notify(&self, st: &St, act: &Act) {
        let c = &self.ctx;
        let store = if self.store == 255 { id_store(act.id) } else { self.store };
        c.evz(K::SBeg, store, act.id, self.id, st.digest(), st.steps, st.valid() as u8, act.script);
        if self.gate != NOGATE && (self.gate_all || c.script(act.script).sgate) {
            c.gate_wait(self.gate, store, act.id);
        }
        c.perturb();
        if self.read_wh != 0 {
            c.read(store, self.read_wh);
        }
        if let Some(h) = &self.hook {
            h(c, st, act);
        }
        c.ev(K::SEnd, store, act.id, self.id, st.digest(), st.steps, 0);
        if let Some(cn) = &self.counter {
            cn.add(1);
        }
    }
    fn on_unsubscribe(&self) {
        let store = if self.store == 255 { 0 } else { self.store };
        self.ctx.ev(K::SUnsub, store, 0, self.id, 0, 0, 0);
        if let Some(c) = &self.unsub_counter {
            c.add(1);
        }
        if self.unsub_gate != NOGATE {
            self.ctx.gate_wait(self.unsub_gate, store, 0);
        }
        if self.panic_on_unsub.swap(false, std::sync::atomic::Ordering::Relaxed) {
            std::panic::panic_any(PANIC_MARK);
        }
    }
}

/// an output type whose equality is a tolerance comparison (|a - b| <= 1): reflexive and symmetric but not
/// transitive, so "differs from the value last delivered" and "differs from the value last seen" part ways
#[derive(Clone, Copy, Debug)]
pub struct Near(pub u8);
impl PartialEq for Near {
    fn eq(&self, o: &Near) -> bool {
        self.0.abs_diff(o.0) <= 1
    }
}
pub struct NearSelector;
impl Selector<St, Near> for NearSelector {
    fn select(&self, st: &St) -> Near {
        Near(st.sel)
    }
}

pub struct SelSelector;
impl Selector<St, u8> for SelSelector {
    fn select(&self, st: &St) -> u8 {
        st.sel
    }
}
