//! Family K: two stores in one process. All per-store oracles are evaluated separately on each store;
//! plus cross-store checks. Feeds C19.

use crate::core::*;
use crate::fam_b::c04;
use crate::hist::*;
use crate::json::J;
use crate::oracle_a::*;
use crate::script::*;
use crate::world::*;
use crate::Outcome;
use rs_store::{DroppableStore, Subscriber};
use std::sync::Arc;

#[derive(Clone, Debug)]
pub struct KCfg {
    pub stores: Vec<StoreCfg>,
    pub n_prod: Vec<usize>,
    pub per_prod: Vec<usize>,
    pub cross_thread: bool,
    pub first_stop: u8,
    pub how: u32,
    pub stop_after: u64,
    pub post_actions: usize,
    pub shared_sub: bool,
    /// a subscriber of one store dispatches into the other store from the reducer context
    pub cross_dispatch: Option<u8>,
    /// the first-stopped store has this many effects parked at a closed gate while the other store's
    /// effect must still run (0 = off)
    pub flood: u32,
    /// the parked effect stays parked across stop(x): that stop() runs into its timeout
    pub stop_times_out: bool,
    /// stop(x) is called from a task running on the other store's pool
    pub stop_from_pool: bool,
    pub scripts: Vec<Script>,
    pub perturb: u8,
    /// stop(x) is in flight, waiting for an effect of x that stays parked, when the idle store y is stopped
    /// by another thread; the effect is released only after stop(y) has returned (natively only)
    pub concurrent_stop: bool,
    /// metamorphic probe in fresh child processes (process-wide state cannot be reset in-process): the
    /// number of effects a store runs at once must not depend on a store created before it
    pub pool_probe: bool,
}

pub fn gen(rng: &mut Rng, tiny: bool) -> KCfg {
    let same = rng.chance(1, 2);
    let mk = |rng: &mut Rng, name: &str| StoreCfg { policy: if rng.chance(2, 3) { POL_BLOCK } else { rng.range(1, 2) as u8 }, cap: *rng.pick(&[1usize, 2, 5, 16]), n_red: rng.range(1, 3) as u32, n_mw: rng.below(2) as u32, name: name.to_string(), ctor: 0 };
    let a = mk(rng, "twin");
    let other_name = if rng.chance(1, 2) { "twin" } else { "other" };
    let b = if same { a.clone() } else { mk(rng, other_name) };
    let mut scripts = vec![Script::plain(), Script::plain()];
    scripts[1].eff[0] = Some(EffSpec { kind: EK_TASK, follow_script: 0, n_follow: 0, panic: false, gate: NOGATE });
    for _ in 0..6 {
        let mut sc = Script::plain();
        match rng.below(6) {
            0 => sc.keep = 0xff,
            1 => sc.eff[0] = Some(EffSpec { kind: EK_THUNK, follow_script: 0, n_follow: rng.range(1, 2) as u8, panic: false, gate: NOGATE }),
            2 => sc.eff[0] = Some(EffSpec { kind: EK_ACTION, follow_script: 0, n_follow: 0, panic: false, gate: NOGATE }),
            3 => sc.mw[0][0] = V_DONE,
            _ => {}
        }
        sc.sel = rng.below(3) as u8;
        scripts.push(sc);
    }
    let mx = if tiny { 3 } else { 25 };
    let per = vec![rng.range(1, mx) as usize, rng.range(1, mx) as usize];
    let np = vec![if tiny { 1 } else { rng.range(1, 3) as usize }, if tiny { 1 } else { rng.range(1, 3) as usize }];
    // script 8: Task effect parked at gate 0
    let mut fl = Script::plain();
    fl.eff[0] = Some(EffSpec { kind: EK_TASK, follow_script: 0, n_follow: 0, panic: false, gate: 0 });
    scripts.push(fl);
    let first_stop = rng.below(2) as u8;
    let total_other = (np[1 - first_stop as usize] * per[1 - first_stop as usize]) as u64;
    let stop_times_out = if cfg!(miri) { rng.chance(1, 3) } else { !tiny && rng.chance(1, 1500) };
    let how = *rng.pick(&[STOP_STOP, STOP_DROP, STOP_TRAIT]);
    let survivor_blocks = [&a, &b][1 - first_stop as usize].policy == POL_BLOCK;
    let stop_times_out = stop_times_out && survivor_blocks;
    KCfg {
        flood: if !survivor_blocks { 0 } else if stop_times_out { 1 } else if !tiny && rng.chance(1, 8) { 80 } else { 0 },
        stop_times_out,
        stop_from_pool: how == STOP_STOP && rng.chance(1, 4),
        stores: vec![a, b],
        n_prod: np,
        per_prod: per,
        cross_thread: rng.chance(1, 2),
        first_stop,
        how,
        stop_after: rng.below(total_other.max(1)),
        post_actions: rng.range(1, 4) as usize,
        shared_sub: rng.chance(2, 3),
        cross_dispatch: if rng.chance(1, 2) { Some(rng.below(2) as u8) } else { None },
        scripts,
        perturb: rng.below(3) as u8,
        concurrent_stop: !cfg!(miri) && rng.chance(1, 6),
        pool_probe: !cfg!(miri) && !tiny && (rng.chance(1, 40) || std::env::var("RSV_FORCE").as_deref() == Ok("pool_probe")),
    }
}

pub fn describe(c: &KCfg) -> J {
    J::obj(vec![
        ("family", J::s("K")),
        ("stores", J::A(c.stores.iter().map(|s| J::s(format!("name '{}' {} cap {} reducers {} middlewares {}", s.name, POL_NAMES[s.policy as usize], s.cap, s.n_red, s.n_mw))).collect())),
        ("producers", J::s(format!("{}x{} / {}x{}", c.n_prod[0], c.per_prod[0], c.n_prod[1], c.per_prod[1]))),
        ("thread_dispatching_to_both", J::B(c.cross_thread)),
        ("first_stopped", J::U(c.first_stop as u64)),
        ("stop_operation", J::s(["stop()", "close()", "drop(DroppableStore)", "Store::stop()"][c.how as usize])),
        ("stop_after_other_returns", J::U(c.stop_after)),
        ("post_actions_on_survivor", J::U(c.post_actions as u64)),
        ("shared_subscriber", J::B(c.shared_sub)),
        ("effects_of_first_stopped_store_parked", J::U(c.flood as u64)),
        ("first_stop_runs_into_timeout", J::B(c.stop_times_out)),
        ("stop_called_from_other_stores_pool", J::B(c.stop_from_pool)),
        ("stop_of_idle_store_while_other_stop_waits_for_its_parked_effect", J::B(c.concurrent_stop)),
        ("pool_probe_in_child_processes", J::B(c.pool_probe)),
        ("subscriber_of_store_dispatching_into_the_other", c.cross_dispatch.map(|s| J::U(s as u64)).unwrap_or(J::Null)),
    ])
}

const MARK_Y_STOPPED: u32 = 13;
const MARK_POOL_PROBE: u32 = 14;

/// x has one effect parked at gate 0; T1 calls stop(x) (it waits for that effect); the main thread then
/// uses and stops the idle store y and only afterwards opens the gate.
fn execute_concurrent_stop(c: &KCfg, seed: u64) -> W {
    let ctx = Ctx::new(ScriptSrc::Table(c.scripts.clone()), 2, seed, c.perturb, false);
    // (blocking policy: the action carrying the parked effect must not be discarded)
    let w = W::new(ctx, c.stores.iter().map(|s| StoreCfg { policy: POL_BLOCK, ..s.clone() }).collect());
    let mut keep = Vec::new();
    for s in 0..2u8 {
        keep.push(w.add_direct(s, NOGATE, false, true, false));
    }
    let x = c.first_stop;
    let y = 1 - x;
    let flood_script = c.scripts.len() as u32 - 1;
    for s in 0..2u8 {
        for k in 0..(c.per_prod[s as usize].min(c.stores[s as usize].cap)) {
            w.dispatch(s, EP_INHERENT, Act { id: act_id(s, 1, k as u32 + 1), script: 0 });
        }
    }
    w.dispatch(x, EP_INHERENT, Act { id: act_id(x, 34, 1), script: flood_script });
    if !w.ctx.gates[0].wait_parked(1) {
        w.mark(900, 2);
        w.ctx.gates[1].wait();
    }
    std::thread::scope(|sc| {
        let w = &w;
        let t1 = std::thread::Builder::new().name("stopper-x".into()).spawn_scoped(sc, move || w.stop(x, STOP_STOP)).unwrap();
        crate::fam_a::wait_until(|| crate::fam_a::count_where(w, |e| e.k == K::StopInv && e.store == x) >= 1);
        // let stop(x) get as far as waiting for its effect
        std::thread::sleep(std::time::Duration::from_millis(15));
        for k in 0..c.post_actions {
            w.dispatch(y, EP_INHERENT, Act { id: act_id(y, 31, k as u32 + 1), script: 0 });
        }
        w.stop(y, STOP_STOP);
        w.mark(MARK_Y_STOPPED, 0);
        w.ctx.gates[0].open();
        t1.join().unwrap();
    });
    w.read(0);
    w.read(1);
    w.metrics(0);
    w.metrics(1);
    drop(keep);
    w
}

/// Child process: a first store (capacity `first_cap`, policy `first_pol`, never used) and then the store
/// under test (capacity 16, blocking). 40 actions each hand a Task to the pool that parks at a gate; prints
/// how many of them run at once (the count that stays unchanged for 300 ms).
pub fn pool_probe_child(first_cap: usize, first_pol: u8, same_name: bool) {
    let mut fl = Script::plain();
    fl.eff[0] = Some(EffSpec { kind: EK_TASK, follow_script: 0, n_follow: 0, panic: false, gate: 0 });
    let ctx = Ctx::new_opts(ScriptSrc::Table(vec![fl]), 1, 1, 0, false, true);
    let w = W::new(ctx, vec![
        StoreCfg { policy: first_pol, cap: first_cap, n_red: 1, n_mw: 0, name: if same_name { "probe".into() } else { "first".into() }, ctor: 0 },
        StoreCfg { policy: POL_BLOCK, cap: 16, n_red: 1, n_mw: 0, name: "probe".into(), ctor: 0 },
    ]);
    for k in 0..40u32 {
        w.dispatch(1, EP_INHERENT, Act { id: act_id(1, 1, k + 1), script: 0 });
    }
    w.ctx.c_red.wait_at_least(40, 20);
    let mut last = (w.ctx.c_eff.get(), std::time::Instant::now());
    let t0 = std::time::Instant::now();
    while last.1.elapsed().as_millis() < 300 && t0.elapsed().as_secs() < 20 {
        std::thread::sleep(std::time::Duration::from_millis(5));
        let n = w.ctx.c_eff.get();
        if n != last.0 {
            last = (n, std::time::Instant::now());
        }
    }
    println!("P {}", last.0);
    w.ctx.gates[0].open();
    w.stop(1, STOP_STOP);
    w.stop(0, STOP_STOP);
}

fn run_probe(first_cap: usize, first_pol: u8, same_name: bool) -> Option<u64> {
    let exe = std::env::current_exe().ok()?;
    let out = std::process::Command::new(exe).args(["Kprobe", &first_cap.to_string(), &first_pol.to_string(), if same_name { "1" } else { "0" }]).output().ok()?;
    let s = String::from_utf8_lossy(&out.stdout);
    s.lines().find_map(|l| l.strip_prefix("P ")).and_then(|x| x.trim().parse().ok())
}

/// two children that differ only in the store created first; up to three attempts, a difference counts only
/// if every attempt shows it
fn execute_pool_probe(c: &KCfg, seed: u64) -> W {
    let ctx = Ctx::new(ScriptSrc::Table(c.scripts.clone()), 2, seed, 0, false);
    let w = W::new(ctx, c.stores.clone());
    let mut verdict = (0u64, 0u64, 0u64); // (code, a, b): code 0 inconclusive, 1 equal, 2 different
    for _ in 0..3 {
        let a = run_probe(1, POL_LATEST, seed % 2 == 0);
        let b = run_probe(16, POL_BLOCK, false);
        match (a, b) {
            (Some(a), Some(b)) if a == b => {
                verdict = (1, a, b);
                break;
            }
            (Some(a), Some(b)) => verdict = (2, a, b),
            _ => {
                verdict = (0, 0, 0);
                break;
            }
        }
    }
    w.ctx.ev(K::Mark, 0, verdict.0 as u32, MARK_POOL_PROBE, verdict.1, verdict.2, 0);
    w.stop(0, STOP_STOP);
    w.stop(1, STOP_STOP);
    w
}

pub fn execute(c: &KCfg, seed: u64) -> W {
    if c.pool_probe {
        return execute_pool_probe(c, seed);
    }
    if c.concurrent_stop {
        return execute_concurrent_stop(c, seed);
    }
    let ctx = Ctx::new(ScriptSrc::Table(c.scripts.clone()), 2, seed, c.perturb, false);
    let w = W::new(ctx, c.stores.clone());
    let mut keep = Vec::new();
    for s in 0..2u8 {
        keep.push(w.add_direct(s, NOGATE, false, true, false));
    }
    if c.shared_sub {
        let (id, sub) = w.new_shared_sub();
        for s in 0..2u8 {
            let arc: Arc<dyn Subscriber<St, Act> + Send + Sync> = sub.clone();
            keep.push((id, w.add_sub_arc(s, id, arc, false)));
        }
    }
    // one SelectorSubscriber instance registered on both stores: it is notified from two reducer threads
    let shared_sel_id = {
        let mut subs = w.subs.lock().unwrap();
        let id = subs.len() as u32;
        subs.push(SubInfo { id, store: 255, kind: SK_SELECTOR, cap: 0, policy: 0, twin: None, at_build: true, shared: true });
        id
    };
    {
        let cx = w.ctx.clone();
        let sel: Arc<dyn Subscriber<St, Act> + Send + Sync> = Arc::new(rs_store::SelectorSubscriber::new(SelSelector, move |val: u8, a: Act| {
            cx.ev(K::SelCb, id_store(a.id), a.id, shared_sel_id, val as u64, 0, 0);
            cx.perturb();
        }));
        for s in 0..2u8 {
            keep.push((shared_sel_id, rs_store::StoreImpl::add_subscriber(&w.stores[s as usize], sel.clone())));
        }
    }
    if let Some(from) = c.cross_dispatch {
        let to = 1 - from;
        let n = Arc::new(std::sync::atomic::AtomicU32::new(0));
        keep.push(w.add_direct_sub(from, true, |sub| {
            sub.hook = Some(Arc::new(move |cx: &Arc<Ctx>, _st: &St, _a: &Act| {
                let k = n.fetch_add(1, std::sync::atomic::Ordering::Relaxed);
                if k < 8 {
                    if let Some(st) = cx.store(to) {
                        dispatch_on(cx, &st, to, EP_INHERENT, Act { id: act_id(to, 33, k + 1), script: 0 });
                    }
                }
            }));
        }));
    }
    let x = c.first_stop;
    let y = 1 - x;
    let droppable = if c.how == STOP_DROP { Some(DroppableStore::new(w.stores[x as usize].clone())) } else { None };
    let returned_y = Counter::new();
    let n_scripts = c.scripts.len() as u64 - 1;
    let flood_script = c.scripts.len() as u32 - 1;
    std::thread::scope(|sc| {
        let mut hs = Vec::new();
        for s in 0..2u8 {
            for p in 0..c.n_prod[s as usize] {
                let w = &w;
                let returned_y = &returned_y;
                hs.push(std::thread::Builder::new().name(format!("s{}prod{}", s, p + 1)).spawn_scoped(sc, move || {
                    let mut rng = Rng::new(mix(seed, 900 + s as u64 * 10 + p as u64));
                    for k in 0..c.per_prod[s as usize] {
                        w.ctx.perturb();
                        let ok = w.dispatch(s, rng.below(3) as u32, Act { id: act_id(s, p as u32 + 1, k as u32 + 1), script: 2 + rng.below(n_scripts - 2) as u32 });
                        if s == y {
                            returned_y.add(1);
                        }
                        if !ok && s == x && c.stores[s as usize].policy != POL_LATEST {
                            break;
                        }
                    }
                }).unwrap());
            }
        }
        if c.cross_thread {
            let w = &w;
            hs.push(std::thread::Builder::new().name("both".into()).spawn_scoped(sc, move || {
                for k in 0..6u32 {
                    let s = (k % 2) as u8;
                    w.ctx.perturb();
                    w.dispatch(s, EP_INHERENT, Act { id: act_id(s, 30, k + 1), script: 0 });
                }
            }).unwrap());
        }
        // stop / drop store x while y is busy
        returned_y.wait_at_least(c.stop_after.min((c.n_prod[y as usize] * c.per_prod[y as usize]) as u64), 30);
        w.ctx.perturb();
        if c.flood > 0 {
            // effects of x park at a closed gate (more of them than any shared pool could run at once);
            // an effect of y must still run
            for k in 0..c.flood {
                w.dispatch(x, EP_INHERENT, Act { id: act_id(x, 34, k + 1), script: flood_script });
            }
            let probe = act_id(y, 35, 1);
            w.dispatch(y, EP_INHERENT, Act { id: probe, script: 1 });
            let ok = crate::fam_a::wait_until(|| {
                let bufs = w.ctx.log.bufs.lock().unwrap();
                bufs.iter().any(|(_, b)| b.lock().unwrap().iter().any(|e| e.k == K::EBeg && e.a == probe))
            });
            if !ok && c.stores[y as usize].policy == POL_BLOCK {
                w.mark(900, 1);
                w.ctx.gates[1].wait();
            }
            w.mark(7, 0);
            if !c.stop_times_out {
                w.ctx.gates[0].open();
            }
        }
        match droppable {
            Some(d) => {
                w.drop_droppable(x, d);
            }
            None if c.stop_from_pool => {
                // stop(x) from a task on y's pool
                let cx = w.ctx.clone();
                let stx = w.stores[x as usize].clone();
                let done = Arc::new(Counter::new());
                let d2 = done.clone();
                rs_store::Dispatcher::dispatch_task(&w.stores[y as usize], Box::new(move || {
                    cx.ev(K::StopInv, x, 0, STOP_STOP, 0, 0, 0);
                    let t0 = std::time::Instant::now();
                    rs_store::StoreImpl::stop(&stx);
                    cx.ev(K::StopRet, x, 0, STOP_STOP, 0, t0.elapsed().as_millis() as u64, 0);
                    d2.add(1);
                }));
                done.wait_at_least(1, 60);
            }
            None => {
                w.stop(x, c.how);
            }
        }
        w.ctx.gates[0].open();
        // the survivor accepts and processes actions dispatched entirely after stop(x) returned
        for k in 0..c.post_actions {
            w.dispatch(y, EP_INHERENT, Act { id: act_id(y, 31, k as u32 + 1), script: 0 });
        }
        w.dispatch(x, EP_INHERENT, Act { id: act_id(x, 32, 1), script: 0 });
        for h in hs {
            h.join().unwrap();
        }
        // thunk follow-ups of y may still be on their way: let them land before stopping y
        crate::fam_a::wait_until(|| {
            let bufs = w.ctx.log.bufs.lock().unwrap();
            let mut inv = 0;
            let mut ret = 0;
            for (_, b) in bufs.iter() {
                for e in b.lock().unwrap().iter() {
                    if e.k == K::EBeg && e.store == y {
                        inv += 1;
                    }
                    if e.k == K::EEnd && e.store == y {
                        ret += 1;
                    }
                }
            }
            inv == ret
        });
        w.stop(y, STOP_STOP);
        w.read(0);
        w.read(1);
        w.metrics(0);
        w.metrics(1);
    });
    drop(keep);
    w
}

pub fn c19(h: &Hist, w: &W, c: &KCfg, v: &mut Verdicts) {
    v.evaluated.insert("C19");
    if h.evs.iter().any(|e| e.k == K::Mark && e.idx == 900) {
        v.inconcl("C19", "controller gave up waiting".into());
        return;
    }
    if let Some(m) = h.evs.iter().find(|e| e.k == K::Mark && e.idx == MARK_POOL_PROBE) {
        match m.a {
            2 => v.fail("C19", format!("a store (capacity 16, BlockOnFull, 40 parked Task effects) ran {} effects at once in a process whose first store had capacity 1 (DropLatest) and {} in a process whose first store had capacity 16 (BlockOnFull), in three attempts out of three: a store created earlier decides how another store executes its effects", m.x, m.y)),
            1 => {
                v.count("c19.pool_probe_pairs_equal", 1);
                v.maxc("c19.max_effects_at_once_in_probe", m.x);
                v.nontrivial.insert("C19");
            }
            _ => v.inconcl("C19", "probe child process did not report".into()),
        }
        return;
    }
    if c.concurrent_stop {
        let (x, y) = (c.first_stop, 1 - c.first_stop);
        if let (Some(sx), Some(sy)) = (first_stop(h, x), first_stop(h, y)) {
            // the gate that lets stop(x) finish opens only after stop(y) returned: stop(x) can return before
            // stop(y) only by running into its timeout, i.e. if stop(y) - an idle store - was held up that long
            if sx.ms >= 2500 && sy.ms >= 2000 && sy.inv < sx.ret && sx.ret < sy.ret {
                v.fail("C19", format!("stop() of the idle store {} (invoked at seq {}) returned only at seq {} after {} ms, after stop() of store {} (waiting for that store's own parked effect) had given up at seq {} after {} ms: stopping one store holds up stopping another", y, sy.inv, sy.ret, sy.ms, x, sx.ret, sx.ms));
                return;
            }
            v.count("c19.idle_store_stopped_while_other_stop_in_flight", (sy.ret < sx.ret) as u64);
        }
    }
    if stop_timed_out(h, 0) && stop_timed_out(h, 1) {
        v.inconcl("C19", "both stop() calls hit their timeout".into());
        return;
    }
    // per-store oracles, relabelled (a store whose own stop() timed out is not judged)
    let mut sub = Verdicts::default();
    for s in 0..2u8 {
        if stop_timed_out(h, s) {
            continue;
        }
        c01(h, s, &mut sub);
        c03(h, s, &mut sub);
        c04(h, s, &mut sub, "C04");
        c04(h, s, &mut sub, "C15");
        crate::oracle_m::c18(h, w, s, &mut sub);
    }
    for f in sub.findings {
        if f.known.is_none() {
            v.fail("C19", format!("[two stores in one process, via the {} oracle] {}", f.prop, f.msg));
        }
    }
    for (k, n) in sub.counters {
        v.count(&format!("c19.{}", k), n);
    }
    // cross-store checks
    for s in 0..2u8 {
        let sh = &h.st[s as usize];
        for a in &sh.taken {
            if id_store(*a) != s {
                v.fail("C19", format!("action {} dispatched to store {} was processed by store {}'s pipeline", id_str(*a), id_store(*a), s));
            }
        }
    }
    let t0 = &h.st[0].rc_tids;
    let t1 = &h.st[1].rc_tids;
    // a worker thread of one store never runs the other store's pipeline while both are alive; tids are
    // per-scenario thread indexes so any overlap means shared reducer context
    if t0.iter().any(|t| t1.contains(t)) {
        v.fail("C19", format!("the two stores share a reducer-context thread ({:?} / {:?})", t0, t1));
    }
    let x = c.first_stop;
    let y = 1 - x;
    let srx = first_stop(h, x).cloned();
    if let Some(srx) = srx {
        let mut post_ok = 0;
        for (a, d) in h.disp.iter().filter(|(a, d)| id_store(**a) == y && d.inv > srx.ret && id_producer(**a) == 31) {
            if d.ok != Some(true) {
                v.fail("C19", format!("store {} rejected {} although only store {} had been stopped", y, id_str(*a), x));
            } else if !h.st[y as usize].acts.contains_key(a) && h.cfg[y as usize].policy == POL_BLOCK {
                v.fail("C19", format!("store {} accepted {} after store {} was stopped but never processed it", y, id_str(*a), x));
            } else {
                post_ok += 1;
            }
        }
        v.count("c19.survivor_actions_after_other_stopped", post_ok);
        // events of y between x's stop.inv and stop.ret: y was busy while x stopped
        let busy = h.st[y as usize].rc.iter().filter(|&&i| h.evs[i].seq > srx.inv && h.evs[i].seq < srx.ret).count() as u64;
        v.count("c19.survivor_events_during_other_stop", busy);
        let backlog_y = h.disp.iter().filter(|(a, d)| id_store(**a) == y && d.ok == Some(true) && d.ret < srx.inv).count() as i64 - h.st[y as usize].taken.iter().filter(|a| h.st[y as usize].acts[*a].first < srx.inv).count() as i64;
        if busy > 0 || backlog_y > 0 {
            v.nontrivial.insert("C19");
        }
    }
    shared_selector(h, v, "C19");
    // shared subscriber released once per store
    for si in h.subs.iter().filter(|si| si.shared && si.kind == SK_DIRECT) {
        let n = h.evs.iter().filter(|e| e.k == K::SUnsub && e.idx == si.id).count();
        if n != 2 {
            v.fail("C19", format!("the subscriber object shared by both stores received on_unsubscribe {} times, expected once per store", n));
        }
    }
}

/// The SelectorSubscriber instance shared by both stores sees one serialized notification stream:
/// whatever the interleaving, it never delivers the same value twice in a row.
pub fn shared_selector(h: &Hist, v: &mut Verdicts, prop: &'static str) {
    for si in h.subs.iter().filter(|si| si.shared && si.kind == SK_SELECTOR) {
        let cbs: Vec<&Ev> = h.evs.iter().filter(|e| e.k == K::SelCb && e.idx == si.id).collect();
        for w2 in cbs.windows(2) {
            if w2[0].x == w2[1].x {
                v.fail(prop, format!("the selector subscriber shared by two stores delivered value {} twice in a row (for {} at seq {} and {} at seq {})", w2[1].x, id_str(w2[0].a), w2[0].seq, id_str(w2[1].a), w2[1].seq));
                break;
            }
        }
        v.count(&format!("{}.shared_selector_callbacks", prop.to_lowercase()), cbs.len() as u64);
        if prop == "C16" {
            v.evaluated.insert("C16");
            let vals: Vec<u64> = cbs.iter().map(|e| e.x).collect();
            if vals.len() >= 3 {
                v.nontrivial.insert("C16");
            }
        }
    }
}

pub fn run(seed: u64, tiny: bool, _focus: &str) -> Outcome {
    let mut rng = Rng::new(seed);
    let c = gen(&mut rng, tiny);
    let w = execute(&c, seed);
    let h = Hist::from_world(&w);
    let mut v = Verdicts::default();
    c19(&h, &w, &c, &mut v);
    shared_selector(&h, &mut v, "C16");
    // the stop-barrier oracle also under its own name (a stop() issued from another store's pool thread)
    for s in 0..2u8 {
        if !stop_timed_out(&h, s) {
            c04(&h, s, &mut v, "C04");
        }
    }
    Outcome::new(describe(&c), h, v)
}
