//! C18: metrics counters balance at quiescence and never decrease.

use crate::core::*;
use crate::hist::*;
use crate::oracle_a::*;
use crate::script::*;
use crate::world::*;
use std::collections::HashMap;

pub fn c18(h: &Hist, w: &W, s: u8, v: &mut Verdicts) {
    let sh = &h.st[s as usize];
    let cfg = &h.cfg[s as usize];
    let samples: Vec<MetSample> = w.met.lock().unwrap().iter().filter(|m| m.store == s).cloned().collect();
    if samples.is_empty() {
        return;
    }
    v.evaluated.insert("C18");
    // monotonicity per sampler thread (successive calls of one thread are real-time ordered)
    let mut last: HashMap<u32, MetSample> = HashMap::new();
    let mut mono_pairs = 0u64;
    for m in &samples {
        if let Some(p) = last.get(&m.tid) {
            mono_pairs += 1;
            for i in 0..8 {
                if m.c[i] < p.c[i] {
                    v.fail("C18", format!("store {}: counter {} decreased from {} to {} between two get_metrics() calls of thread t{} (seq {} -> {})", s, MET_NAMES[i], p.c[i], m.c[i], m.tid, p.ret, m.inv));
                }
            }
        }
        last.insert(m.tid, m.clone());
    }
    v.count("c18.monotone_sample_pairs", mono_pairs);
    // balance at quiescence: a sample taken after stop() returned
    let sr = match first_stop(h, s) {
        Some(sr) if sr.ret != INF => sr,
        _ => return,
    };
    if stop_timed_out(h, s) {
        v.inconcl("C18", "stop() hit its timeout".into());
        return;
    }
    let fin = match samples.iter().rev().find(|m| m.inv > sr.ret) {
        Some(m) => m.c,
        None => return,
    };
    if cfg.n_red == 0 && cfg.n_mw == 0 {
        return; // taken actions are not observable without a reducer or middleware
    }
    let taken = sh.taken.len() as u64;
    let vetoed = sh.acts.values().filter(|a| a.vetoed()).count() as u64;
    let [received, dropped, reduced, effect_issued, mw_exec, _sn, _subn, errors] = fin;
    // dispatch calls made while the store was open
    let close_inv = sh.stops.iter().map(|r| r.inv).min().unwrap_or(INF);
    let mut n_open = 0u64;
    let mut ambiguous = 0u64;
    let mut err_calls = 0u64;
    for (a, d) in &h.disp {
        if id_store(*a) != s {
            continue;
        }
        match d.ep {
            EP_INHERENT | EP_STORE_TRAIT => match d.ok {
                Some(true) => n_open += 1,
                Some(false) => err_calls += 1,
                None => ambiguous += 1,
            },
            _ => {
                // Err from the Dispatcher interface means "closed" or "discarded": only unambiguous
                // when the call returned before shutdown was invoked
                if d.ret < close_inv {
                    n_open += 1;
                } else if d.ok == Some(true) {
                    n_open += 1;
                } else {
                    ambiguous += 1;
                }
            }
        }
    }
    // internal dispatches we cannot see (Effect::Action) show up only as taken follow-ups
    let internal_taken = sh.taken.iter().filter(|a| !h.disp.contains_key(a)).count() as u64;
    let has_internal = sh.acts.values().any(|ar| ar.reduces.iter().any(|r| {
        let sc = h.ctx.script(r.z);
        (r.ridx as usize) < 4 && matches!(sc.eff[r.ridx as usize], Some(e) if e.kind == EK_ACTION)
    }));
    let exit_taken = received as i64 - taken as i64;
    let exit_ok = match cfg.policy {
        POL_LATEST => exit_taken == 0 || exit_taken == 1,
        _ => exit_taken == 1,
    };
    let closed_by_stop = true;
    if closed_by_stop && !exit_ok {
        v.fail("C18", format!("store {} ({}): action_received = {} but the reducer took {} actions (plus the shutdown marker)", s, POL_NAMES[cfg.policy as usize], received, taken));
    }
    if ambiguous == 0 && !has_internal {
        if taken + dropped != n_open + internal_taken {
            v.fail(
                "C18",
                format!("store {} ({}, cap {}): {} actions were dispatched while the store was open, but received-by-reducer ({}) + action_dropped ({}) = {}", s, POL_NAMES[cfg.policy as usize], cfg.cap, n_open, taken, dropped, taken + dropped),
            );
        }
        v.count("c18.balance_checked", 1);
    } else {
        v.count("c18.balance_skipped_ambiguous", 1);
    }
    if reduced != taken - vetoed.min(taken) {
        v.fail("C18", format!("store {}: action_reduced = {} but {} actions were received and {} of them vetoed", s, reduced, taken, vetoed));
    }
    let mut eff_expected = 0u64;
    for ar in sh.acts.values() {
        for r in &ar.reduces {
            if r.end != INF && (r.ridx as usize) < 4 && h.ctx.script(r.z).eff[r.ridx as usize].is_some() {
                eff_expected += 1;
            }
        }
    }
    if effect_issued != eff_expected {
        v.fail("C18", format!("store {}: effect_issued = {} but the reducers returned {} effects", s, effect_issued, eff_expected));
    }
    let hooks = h.evs.iter().filter(|e| e.k == K::MBeg && e.store == s).count() as u64;
    if mw_exec != hooks {
        v.fail("C18", format!("store {}: middleware_executed = {} but {} hooks were invoked", s, mw_exec, hooks));
    }
    if errors != err_calls {
        v.fail("C18", format!("store {}: error_occurred = {} but {} dispatch calls of the store's own dispatch method were rejected", s, errors, err_calls));
    }
    v.count("c18.dropped_seen", dropped);
    v.count("c18.vetoed_seen", vetoed);
    v.count("c18.effects_seen", eff_expected);
    v.count("c18.rejected_seen", err_calls);
    let tids: std::collections::HashSet<u32> = h.disp.values().map(|d| d.tid).collect();
    let mut score = 0;
    if dropped > 0 {
        score += 1;
    }
    if vetoed > 0 {
        score += 1;
    }
    if eff_expected > 0 {
        score += 1;
    }
    if err_calls > 0 {
        score += 1;
    }
    if tids.len() >= 2 && score >= 2 {
        v.nontrivial.insert("C18");
    }
}
