//! Logical clock, per-thread event buffers, gates, PRNG.
//!
//! The clock is one AtomicU64 bumped with Relaxed fetch_add: RMW atomicity on a single location
//! gives "A happens-before B => seq(A) < seq(B)" without adding any happens-before edge of its own,
//! so the monitor never hides a race from Miri/TSan and is never itself the race.

use std::cell::RefCell;
use std::sync::atomic::{AtomicI64, AtomicU64, Ordering};
use std::sync::{Arc, Condvar, Mutex};
use std::time::Duration;

#[derive(Clone, Copy, Debug, PartialEq, Eq, Hash, PartialOrd, Ord)]
#[repr(u8)]
pub enum K {
    DInv,
    DRet,
    RBeg,
    REnd,
    MBeg,
    MEnd,
    MErr,
    SBeg,
    SEnd,
    SUnsub,
    SelCb,
    EBeg,
    EEnd,
    GInv,
    GRet,
    StopInv,
    StopRet,
    AddInv,
    AddRet,
    UInv,
    URet,
    ItInv,
    ItNext,
    ItDropInv,
    ItDropRet,
    GateWait,
    GateGo,
    Mark,
    TInv,
    TRet,
    MetInv,
    MetRet,
}

impl K {
    pub fn name(self) -> &'static str {
        match self {
            K::DInv => "dispatch.inv",
            K::DRet => "dispatch.ret",
            K::RBeg => "reduce.begin",
            K::REnd => "reduce.end",
            K::MBeg => "mw.begin",
            K::MEnd => "mw.end",
            K::MErr => "mw.on_error",
            K::SBeg => "on_notify.begin",
            K::SEnd => "on_notify.end",
            K::SUnsub => "on_unsubscribe",
            K::SelCb => "selector.callback",
            K::EBeg => "effect.begin",
            K::EEnd => "effect.end",
            K::GInv => "get_state.inv",
            K::GRet => "get_state.ret",
            K::StopInv => "stop.inv",
            K::StopRet => "stop.ret",
            K::AddInv => "register.inv",
            K::AddRet => "register.ret",
            K::UInv => "unsubscribe.inv",
            K::URet => "unsubscribe.ret",
            K::ItInv => "iter.next.inv",
            K::ItNext => "iter.next.ret",
            K::ItDropInv => "iter.drop.inv",
            K::ItDropRet => "iter.drop.ret",
            K::GateWait => "gate.wait",
            K::GateGo => "gate.go",
            K::Mark => "mark",
            K::TInv => "submit.inv",
            K::TRet => "submit.ret",
            K::MetInv => "get_metrics.inv",
            K::MetRet => "get_metrics.ret",
        }
    }
}

/// One observed event. Field meaning depends on `k` (see script.rs / world.rs where each is logged).
#[derive(Clone, Copy, Debug)]
pub struct Ev {
    pub seq: u64,
    pub tid: u32,
    pub k: K,
    pub store: u8,
    pub a: u32,
    pub idx: u32,
    pub x: u64,
    pub y: u64,
    pub r: u8,
    /// script number of the action, where the callback knows it
    pub z: u32,
}

/// Harness-side patience is a cap, never a verdict. Under Miri the virtual clock advances with every
/// executed basic block, so caps are scaled up there.
pub const CAP_SCALE: u64 = if cfg!(miri) { 200 } else { 1 };

pub struct Gate {
    m: Mutex<GateSt>,
    cv: Condvar,
}
#[derive(Default)]
struct GateSt {
    tokens: u64,
    open: bool,
    waiting: u64,
    passed: u64,
}

impl Gate {
    pub fn new() -> Gate {
        Gate { m: Mutex::new(GateSt::default()), cv: Condvar::new() }
    }
    /// Wait for a token (or pass if the gate is open). Returns false if it timed out (watchdog cap).
    pub fn wait(&self) -> bool {
        let mut g = self.m.lock().unwrap();
        g.waiting += 1;
        self.cv.notify_all();
        let mut rounds = 0u32;
        while !g.open && g.tokens == 0 {
            let (ng, to) = self.cv.wait_timeout(g, Duration::from_secs(20 * CAP_SCALE)).unwrap();
            g = ng;
            if to.timed_out() {
                rounds += 1;
                if rounds >= 6 {
                    g.waiting -= 1;
                    return false;
                }
            }
        }
        if !g.open {
            g.tokens -= 1;
        }
        g.waiting -= 1;
        g.passed += 1;
        self.cv.notify_all();
        true
    }
    pub fn add(&self, n: u64) {
        let mut g = self.m.lock().unwrap();
        g.tokens += n;
        self.cv.notify_all();
    }
    pub fn open(&self) {
        let mut g = self.m.lock().unwrap();
        g.open = true;
        self.cv.notify_all();
    }
    pub fn passed(&self) -> u64 {
        self.m.lock().unwrap().passed
    }
    pub fn waiting(&self) -> u64 {
        self.m.lock().unwrap().waiting
    }
    /// Block until exactly/at least `n` threads are parked at this gate with no token left for them.
    /// Returns false on the (generous) cap; callers treat that as inconclusive, never a violation.
    pub fn wait_parked(&self, n: u64) -> bool {
        let mut g = self.m.lock().unwrap();
        let mut rounds = 0;
        while !(g.waiting >= n && g.tokens == 0 && !g.open) {
            let (ng, to) = self.cv.wait_timeout(g, Duration::from_secs(10 * CAP_SCALE)).unwrap();
            g = ng;
            if to.timed_out() {
                rounds += 1;
                if rounds >= 6 {
                    return false;
                }
            }
        }
        true
    }
    /// Block until `n` passes through this gate have completed in total.
    pub fn wait_passed(&self, n: u64) -> bool {
        let mut g = self.m.lock().unwrap();
        let mut rounds = 0;
        while g.passed < n {
            let (ng, to) = self.cv.wait_timeout(g, Duration::from_secs(10 * CAP_SCALE)).unwrap();
            g = ng;
            if to.timed_out() {
                rounds += 1;
                if rounds >= 6 {
                    return false;
                }
            }
        }
        true
    }
}

pub type Buf = Arc<Mutex<Vec<Ev>>>;

pub struct Log {
    pub id: u64,
    pub clock: AtomicU64,
    pub bufs: Mutex<Vec<(String, Buf)>>,
    /// client calls currently outstanding (watchdog reads this)
    pub outstanding: AtomicI64,
}

static NEXT_LOG_ID: AtomicU64 = AtomicU64::new(1);
/// the log of the scenario currently running (the watchdog reads it when a scenario is stuck)
pub static CURRENT: Mutex<Option<Arc<Log>>> = Mutex::new(None);
/// Mirror of the most recent log's clock, for the watchdog (progress indicator only).
pub static PROGRESS: AtomicU64 = AtomicU64::new(0);
pub static OUTSTANDING: AtomicI64 = AtomicI64::new(0);

thread_local! {
    static TL: RefCell<Option<(u64, u32, Buf)>> = const { RefCell::new(None) };
    static RNG: RefCell<Option<(u64, Rng)>> = const { RefCell::new(None) };
}

impl Log {
    pub fn new() -> Arc<Log> {
        let l = Arc::new(Log {
            id: NEXT_LOG_ID.fetch_add(1, Ordering::Relaxed),
            clock: AtomicU64::new(1),
            bufs: Mutex::new(Vec::new()),
            outstanding: AtomicI64::new(0),
        });
        *CURRENT.lock().unwrap() = Some(l.clone());
        l
    }

    fn with_buf<R>(&self, f: impl FnOnce(u32, &Buf) -> R) -> R {
        TL.with(|tl| {
            let mut tl = tl.borrow_mut();
            let fresh = match tl.as_ref() {
                Some((id, _, _)) => *id != self.id,
                None => true,
            };
            if fresh {
                let buf: Buf = Arc::new(Mutex::new(Vec::with_capacity(64)));
                let name = std::thread::current().name().unwrap_or("").to_string();
                let mut bufs = self.bufs.lock().unwrap();
                let tid = bufs.len() as u32;
                bufs.push((name, buf.clone()));
                drop(bufs);
                *tl = Some((self.id, tid, buf));
            }
            let (_, tid, buf) = tl.as_ref().unwrap();
            f(*tid, buf)
        })
    }

    /// Harness-assigned index of the calling thread in this log.
    pub fn tid(&self) -> u32 {
        self.with_buf(|tid, _| tid)
    }

    #[allow(clippy::too_many_arguments)]
    pub fn ev(&self, k: K, store: u8, a: u32, idx: u32, x: u64, y: u64, r: u8) -> u64 {
        self.evz(k, store, a, idx, x, y, r, 0)
    }

    #[allow(clippy::too_many_arguments)]
    pub fn evz(&self, k: K, store: u8, a: u32, idx: u32, x: u64, y: u64, r: u8, z: u32) -> u64 {
        self.with_buf(|tid, buf| {
            // take the timestamp while holding this thread's own (uncontended) buffer lock so the
            // buffer is seq-sorted; the lock is per-thread and never shared while running
            let mut b = buf.lock().unwrap();
            let seq = self.clock.fetch_add(1, Ordering::Relaxed);
            b.push(Ev { seq, tid, k, store, a, idx, x, y, r, z });
            PROGRESS.fetch_add(1, Ordering::Relaxed);
            seq
        })
    }

    pub fn now(&self) -> u64 {
        self.clock.load(Ordering::Relaxed)
    }

    /// Merge all buffers (call only after the scenario's threads are done, or accept a prefix).
    pub fn merged(&self) -> (Vec<Ev>, Vec<String>) {
        let bufs = self.bufs.lock().unwrap();
        let mut all = Vec::new();
        let mut names = Vec::new();
        for (name, b) in bufs.iter() {
            names.push(name.clone());
            all.extend(b.lock().unwrap().iter().copied());
        }
        all.sort_by_key(|e| e.seq);
        (all, names)
    }
}

// ---------------------------------------------------------------------------------------------
// PRNG (SplitMix64) and hashing

#[derive(Clone, Debug)]
pub struct Rng(pub u64);

impl Rng {
    pub fn new(seed: u64) -> Rng {
        Rng(seed ^ 0x9E37_79B9_7F4A_7C15)
    }
    pub fn next(&mut self) -> u64 {
        self.0 = self.0.wrapping_add(0x9E37_79B9_7F4A_7C15);
        let mut z = self.0;
        z = (z ^ (z >> 30)).wrapping_mul(0xBF58_476D_1CE4_E5B9);
        z = (z ^ (z >> 27)).wrapping_mul(0x94D0_49BB_1331_11EB);
        z ^ (z >> 31)
    }
    /// uniform in 0..n (n>0)
    pub fn below(&mut self, n: u64) -> u64 {
        self.next() % n
    }
    pub fn range(&mut self, lo: u64, hi_incl: u64) -> u64 {
        lo + self.below(hi_incl - lo + 1)
    }
    pub fn chance(&mut self, num: u64, den: u64) -> bool {
        self.below(den) < num
    }
    pub fn pick<'a, T>(&mut self, xs: &'a [T]) -> &'a T {
        &xs[self.below(xs.len() as u64) as usize]
    }
    pub fn fork(&mut self, salt: u64) -> Rng {
        Rng::new(mix(self.next(), salt))
    }
}

pub fn mix(a: u64, b: u64) -> u64 {
    let mut z = a ^ b.wrapping_mul(0x9E37_79B9_7F4A_7C15).rotate_left(23);
    z = (z ^ (z >> 30)).wrapping_mul(0xBF58_476D_1CE4_E5B9);
    z = (z ^ (z >> 27)).wrapping_mul(0x94D0_49BB_1331_11EB);
    z ^ (z >> 31)
}

/// Seeded perturbation applied inside scripted callbacks and between client steps.
/// level 0: nothing. level 1: mostly nothing, some yields/spins. level 2: also short sleeps.
pub fn perturb(seed: u64, level: u8) {
    if level == 0 {
        return;
    }
    let r = RNG.with(|c| {
        let mut c = c.borrow_mut();
        let stale = match c.as_ref() {
            Some((s, _)) => *s != seed,
            None => true,
        };
        if stale {
            let t = std::thread::current().id();
            let h = mix(seed, format!("{:?}", t).len() as u64 ^ thread_hash());
            *c = Some((seed, Rng::new(h)));
        }
        c.as_mut().unwrap().1.next()
    });
    let d = r % 100;
    if cfg!(miri) {
        if d < 25 {
            std::thread::yield_now();
        }
        return;
    }
    if d < 55 {
    } else if d < 80 {
        std::thread::yield_now();
    } else if d < 94 || level < 2 {
        let n = 20 + (r >> 8) % 1500;
        for _ in 0..n {
            std::hint::spin_loop();
        }
    } else {
        std::thread::sleep(Duration::from_micros(20 + (r >> 8) % 300));
    }
}

fn thread_hash() -> u64 {
    use std::hash::{Hash, Hasher};
    let mut h = std::collections::hash_map::DefaultHasher::new();
    std::thread::current().id().hash(&mut h);
    h.finish()
}

/// Monotone counter with a condvar: lets the controller wait for harness-side progress without
/// polling (so a genuinely wedged scenario becomes quiet and the watchdog's logical criterion fires).
pub struct Counter {
    m: Mutex<u64>,
    cv: Condvar,
}

impl Counter {
    pub fn new() -> Counter {
        Counter { m: Mutex::new(0), cv: Condvar::new() }
    }
    pub fn add(&self, n: u64) {
        *self.m.lock().unwrap() += n;
        self.cv.notify_all();
    }
    pub fn get(&self) -> u64 {
        *self.m.lock().unwrap()
    }
    /// wait until the counter is >= n; false after `secs` seconds without reaching it
    pub fn wait_at_least(&self, n: u64, secs: u64) -> bool {
        let mut g = self.m.lock().unwrap();
        let t0 = std::time::Instant::now();
        while *g < n {
            let left = Duration::from_secs(secs * CAP_SCALE).saturating_sub(t0.elapsed());
            if left.is_zero() {
                return false;
            }
            let (ng, _) = self.cv.wait_timeout(g, left).unwrap();
            g = ng;
        }
        true
    }
}
